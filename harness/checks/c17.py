"""C17: multi-file schemas resolve every import once, in dependency order; the CLI's exit status and cwd-independence."""
import contextlib
import hashlib
import io
import json
import multiprocessing
import os
import shutil
import signal
import subprocess
import sys
from pathlib import Path

from .. import common
from ..common import coq_eval

MANIFEST = {
	'text': 'resolve_once / resolve_order (+ uniqueness of the listing, imports-first) / resolve_result_unique / resolve_root_last / '
		'resolve_failure_cause / resolve_terminates / resolve_succeeds_iff / '
		'exit_code_spec / main_exit_spec are Qed theorems (Props/C17.v, closed under the global context) over the model of '
		'LarkMultiFileParser.parse and main\'s exit-status control flow on an abstract file system, for every import graph (no bound); '
		'the model\'s holes (membership test, lark rule names vs catbuffer.lark, import child index, exit constants) are regenerated from '
		'the source on every run; model, implementation (class in-process, main in-process, CLI subprocesses from three working '
		'directories with relative/absolute/mixed path spellings) and an independent Python oracle are compared on generated import graphs '
		'materialised as real .cats files.',
	'design_ref': 'DESIGN.md section 4, C17',
	'technique': 'Coq proof over regenerated model + vm_compute correspondence with the Python implementation (class and CLI)',
}

IMPORTS = 'From Symv Require Import Cats.Resolve.'
KNOWN_SIGNATURES = ('import-only-file-dropped', 'comment-only-file-crash', 'root-reimported-through-cycle-duplicates')
GEN_PACKAGE = {
	'c17gen/__init__.py': '',
	'c17gen/Ok.py': 'from pathlib import Path\n\n\nclass Ok:\n\t@staticmethod\n\tdef generate(type_descriptors, output):\n'
		'\t\tPath(output).write_text("".join(f"{model.name}\\n" for model in type_descriptors), encoding="utf8")\n',
	'c17gen/Boom.py': 'class Boom:\n\t@staticmethod\n\tdef generate(type_descriptors, output):\n\t\traise RuntimeError("generator failed")\n',
	# the other ways a requested generation fails: the generator cannot write, trips over a descriptor, needs a module that is absent,
	# or the named module exists but has no class of that name (c17gen.Missing does not exist at all)
	'c17gen/BoomOs.py': 'class BoomOs:\n\t@staticmethod\n\tdef generate(type_descriptors, output):\n\t\traise OSError("cannot write output")\n',
	'c17gen/BoomAttr.py': 'class BoomAttr:\n\t@staticmethod\n\tdef generate(type_descriptors, output):\n\t\treturn type_descriptors.no_such_attribute\n',
	'c17gen/BoomImport.py': 'class BoomImport:\n\t@staticmethod\n\tdef generate(type_descriptors, output):\n\t\timport c17gen_absent_dependency\n',
	'c17gen/NoClass.py': 'class SomethingElse:\n\tpass\n',
}
BOOM_GENERATORS = ('Boom', 'BoomOs', 'BoomAttr', 'BoomImport', 'NoClass', 'Missing')


# ---------------------------------------------------------------------------------------------------------------------
# cases: a case is {'root', 'files': {path: {'kind': 'ok'|'syntax', 'items': [...]}}, 'flags': 'yaml'|'gen_ok'|'gen_boom'|'none', ...}
# items: ['import', path] | ['decl', {'name', 'form', 'refs', 'post_ok', 'comment'}] | ['comment', text]

# ---------------------------------------------------------------------------------------------------------------------
# validation-fault catalogue: one entry per error-message family of AstValidator (both stages).  Each entry is a declaration {N}
# (with an optional VALID helper declaration {H}) that parses, makes the named stage report the named message and nothing else;
# the property demands exit status exactly 2 and no output for every one of them, wherever in the import graph it sits and
# whatever output / generator was requested.  (key, stage, helper text, declaration text, message fragment)

HELPER_STRUCT = 'struct {H}\n\tkey_aa = uint8\n\tkey_bb = uint16\n'
HELPER_ENUM = 'enum {H} : uint8\n\tVALUE_A = 1\n\tVALUE_B = 2\n'
HELPER_ALIAS = 'using {H} = uint32\n'
UNDECLARED = 'UndeclaredMarker'   # what a pre-expansion fault "refers to" in the model / oracle: a name nothing declares
VALIDATION_FAULTS = [
	('unknown-member-type', 'pre', None, 'struct {N}\n\tfield_aa = uint8\n\tfield_bb = Nowhere9\n', 'reference to unknown type'),
	('unknown-element-type', 'pre', None, 'struct {N}\n\tfield_aa = uint8\n\tfield_bb = array(Nowhere9, 2)\n', 'reference to unknown element type'),
	('unknown-unnamed-inline', 'pre', None, 'struct {N}\n\tinline Nowhere9\n\tfield_bb = uint8\n', 'reference to unknown inlined type'),
	('unknown-named-inline', 'pre', None, 'struct {N}\n\tfield_aa = inline Nowhere9\n\tfield_bb = uint8\n', 'reference to unknown type'),
	('named-inline-of-non-inline-struct', 'pre', HELPER_STRUCT, 'struct {N}\n\tfield_aa = inline {H}\n\tfield_bb = uint8\n', 'named inline field referencing non inline struct'),
	('named-inline-of-alias', 'pre', HELPER_ALIAS, 'struct {N}\n\tfield_aa = inline {H}\n\tfield_bb = uint8\n', 'named inline field referencing non inline struct'),
	('unknown-size-member', 'pre', None, 'struct {N}\n\tfield_aa = uint8\n\tfield_bb = array(uint8, no_such)\n', 'reference to unknown size property'),
	('unknown-sort-key', 'post', HELPER_STRUCT, 'struct {N}\n\tfield_aa = uint8\n\t@sort_key(no_such)\n\tfield_bb = array({H}, field_aa)\n', 'reference to unknown sort_key property'),
	('sort-key-on-alias-elements', 'post', HELPER_ALIAS, 'struct {N}\n\tfield_aa = uint8\n\t@sort_key(key_aa)\n\tfield_bb = array({H}, field_aa)\n', 'reference to unknown sort_key property'),
	('unknown-sizeof-member', 'pre', None, 'struct {N}\n\tfield_aa = uint8\n\tfield_bb = sizeof(uint16, no_such)\n', 'reference to unknown sizeof property'),
	('sizeof-of-fixed-size-type', 'pre', None, 'struct {N}\n\tfield_aa = uint32\n\tfield_bb = sizeof(uint16, field_aa)\n', 'sizeof property references fixed size type'),
	('sizeof-of-alias', 'pre', HELPER_ALIAS, 'struct {N}\n\tfield_aa = {H}\n\tfield_bb = sizeof(uint16, field_aa)\n', 'sizeof property references fixed size type'),
	('sizeof-of-unknown-type', 'pre', None, 'struct {N}\n\tfield_aa = Nowhere9\n\tfield_bb = sizeof(uint16, field_aa)\n', 'sizeof property references unknown type'),
	('sizeof-without-size-implicit', 'pre', HELPER_STRUCT, 'struct {N}\n\tfield_aa = {H}\n\tfield_bb = sizeof(uint16, field_aa)\n', 'without is_size_implicit attribute'),
	('unknown-sizeref-member', 'post', None, 'struct {N}\n\t@sizeref(no_such, 2)\n\tfield_aa = uint16\n\tfield_bb = uint8\n', 'reference to unknown sizeref property'),
	('unknown-condition-member', 'pre', None, 'struct {N}\n\tfield_aa = uint8\n\tfield_bb = uint8 if 3 equals no_such\n', 'reference to unknown condition field'),
	('bad-condition-enum-value', 'pre', HELPER_ENUM, 'struct {N}\n\tfield_aa = {H}\n\tfield_bb = uint8 if VALUE_Z equals field_aa\n', 'is not a valid enum value'),
	('bad-condition-numeric-value', 'pre', None, 'struct {N}\n\tfield_aa = uint8\n\tfield_bb = uint8 if VALUE_Z equals field_aa\n', 'is not a valid numeric value'),
	('bad-constant-enum-value', 'pre', HELPER_ENUM, 'struct {N}\n\tFIELD_AA = make_const({H}, VALUE_Z)\n\tfield_bb = uint8\n', 'is not a valid enum value'),
	('bad-reserved-enum-value', 'pre', HELPER_ENUM, 'struct {N}\n\tfield_aa = make_reserved({H}, VALUE_Z)\n\tfield_bb = uint8\n', 'is not a valid enum value'),
	('bad-constant-numeric-value', 'pre', HELPER_ALIAS, 'struct {N}\n\tFIELD_AA = make_const({H}, VALUE_A)\n\tfield_bb = uint8\n', 'is not a valid numeric value'),
	('duplicate-member', 'pre', None, 'struct {N}\n\tfield_aa = uint8\n\tfield_aa = uint16\n', 'duplicate struct fields'),
	('duplicate-enum-value', 'pre', None, 'enum {N} : uint8\n\tVALUE_A = 1\n\tVALUE_A = 2\n', 'duplicate enum values'),
	('inapplicable-sort-key', 'pre', None, 'struct {N}\n\tfield_aa = uint8\n\t@sort_key(field_aa)\n\tfield_bb = uint16\n', 'inapplicable attribute'),
	('inapplicable-alignment', 'pre', HELPER_ALIAS, 'struct {N}\n\tfield_aa = uint8\n\t@alignment(8)\n\tfield_bb = {H}\n', 'inapplicable attribute'),
	('inapplicable-byte-constrained', 'pre', HELPER_STRUCT, 'struct {N}\n\tfield_aa = uint8\n\t@is_byte_constrained\n\tfield_bb = {H}\n', 'inapplicable attribute'),
	('unknown-size-attribute-target', 'post', None, '@size(no_such)\nstruct {N}\n\tfield_aa = uint8\n\tfield_bb = uint16\n', 'reference to unknown "size" property'),
	('size-attribute-target-of-wrong-type', 'post', None, '@size(field_bb)\nstruct {N}\n\tfield_aa = uint8\n\tfield_bb = array(uint8, field_aa)\n', 'has unexpected type'),
	('unknown-discriminator-target', 'post', None, '@discriminator(field_aa, no_such)\nstruct {N}\n\tfield_aa = uint8\n\tfield_bb = uint16\n', 'reference to unknown "discriminator" property'),
	('unknown-comparer-target', 'post', None, '@comparer(no_such)\nstruct {N}\n\tfield_aa = uint8\n\tfield_bb = uint16\n', 'reference to unknown "comparer" property'),
	('unknown-initializes-target', 'post', None, '@initializes(no_such, FIELD_CC)\nstruct {N}\n\tFIELD_CC = make_const(uint8, 3)\n\tfield_bb = uint16\n', 'reference to unknown "intializes" property'),
	('unknown-initializes-value', 'post', None, '@initializes(field_bb, NO_SUCH)\nstruct {N}\n\tfield_aa = uint8\n\tfield_bb = uint16\n', 'reference to unknown "intializes" property'),
	('initializes-of-different-type', 'post', None, '@initializes(field_bb, FIELD_CC)\nstruct {N}\n\tFIELD_CC = make_const(uint8, 3)\n\tfield_bb = uint16\n', 'of different type'),
]
FAULT_BY_KEY = {entry[0]: entry for entry in VALIDATION_FAULTS}


def fault_decls(key, name):
	"""The declaration items (helper first) that plant validation fault `key` under the type name `name`."""
	_, stage, helper, text, _ = FAULT_BY_KEY[key]
	items = []
	helper_name = f'{name}Hx'
	if helper:
		items.append(['decl', {'name': helper_name, 'form': 'raw', 'text': helper.format(H=helper_name), 'refs': [], 'post_ok': True, 'comment': False}])
	items.append(['decl', {
		'name': name, 'form': 'raw', 'text': text.format(N=name, H=helper_name), 'refs': [UNDECLARED] if stage == 'pre' else [],
		'post_ok': stage != 'post', 'comment': False, 'fault': key}])
	return items


def render_decl(decl):
	lines = []
	if decl.get('comment'):
		lines.append(f'# about {decl["name"]}')
	form = decl['form']
	if form == 'raw':
		return '\n'.join(lines + [decl['text'].rstrip('\n')]) + '\n'
	if form == 'alias':
		lines.append(f'using {decl["name"]} = {decl.get("base", "uint32")}')
	elif form == 'enum':
		lines += [f'enum {decl["name"]} : uint8', '\tVALUE_A = 1', '\tVALUE_B = 2']
	else:
		if not decl['post_ok']:
			lines.append('@size(nothere)')
		lines.append(f'struct {decl["name"]}')
		refs = list(decl['refs'])
		lines.append('\tfield_aa = uint8')
		if not refs:
			lines.append('\tfield_bb = uint16')
		for index, ref in enumerate(refs):
			lines.append(f'\tfield_r{index} = {ref}')
	return '\n'.join(lines) + '\n'


def render_file(spec):
	if spec['kind'] == 'syntax':
		return spec['text']
	parts = []
	previous = None
	for item in spec['items']:
		if item[0] == 'import':
			text = f'import "{item[1]}"\n'
		elif item[0] == 'comment':
			# a blank line keeps two free comments apart (otherwise they are one multi-line comment)
			text = ('\n' if previous == 'comment' else '') + f'# {item[1]}\n'
		else:
			text = render_decl(item[1])
		previous = item[0]
		parts.append(text)
	return ''.join(parts)


def lark_statements(spec):
	"""The top-level statements lark sees (a free comment directly before a declaration is attached to it)."""
	out = []
	items = spec['items']
	for index, item in enumerate(items):
		if item[0] == 'comment' and index + 1 < len(items) and items[index + 1][0] == 'decl':
			continue
		out.append(item[0])
	return out


def decl(name, form='alias', refs=(), post_ok=True, comment=False):
	return ['decl', {'name': name, 'form': form, 'refs': list(refs), 'post_ok': post_ok, 'comment': comment}]


def ok_file(*items):
	return {'kind': 'ok', 'items': [list(item) if not isinstance(item, list) else item for item in items]}


def imp(path):
	return ['import', path]


def directed_cases():
	"""Small hand-shaped graphs, one feature each (these give the minimal replays)."""
	A, B, C, D = 'a.cats', 'b.cats', 'sub/c.cats', 'sub/deep/d.cats'
	da, db, dc, dd = decl('TyA'), decl('TyB'), decl('TyC'), decl('TyD')
	cases = [
		('chain', A, {A: ok_file(imp(B), da), B: ok_file(imp(C), db), C: ok_file(imp(D), dc, decl('TyC2')), D: ok_file(dd, decl('TyD2'))}),
		('diamond', A, {A: ok_file(imp(B), imp(C), da, decl('TyA2')), B: ok_file(imp(D), db, decl('TyB2')), C: ok_file(imp(D), dc, decl('TyC2')), D: ok_file(dd, decl('TyD2'))}),
		('repeated-import', A, {A: ok_file(imp(B), imp(B), da, imp(B)), B: ok_file(db, decl('TyB2'))}),
		('import-after-declaration', A, {A: ok_file(da, imp(B), decl('TyA2')), B: ok_file(db, decl('TyB2'))}),
		('self-import-inner', A, {A: ok_file(imp(B), da), B: ok_file(imp(B), db)}),
		('self-import-root', A, {A: ok_file(imp(A), da)}),
		('cycle-through-root', A, {A: ok_file(imp(B), da), B: ok_file(imp(A), db)}),
		('cycle-through-root-3', A, {A: ok_file(imp(B), da, decl('TyA2')), B: ok_file(imp(C), db, decl('TyB2')), C: ok_file(imp(A), dc, decl('TyC2'))}),
		('cycle-not-through-root', A, {A: ok_file(imp(B), da), B: ok_file(imp(C), db, decl('TyB2')), C: ok_file(imp(B), dc, decl('TyC2'))}),
		('single-statement-leaf', A, {A: ok_file(imp(B), da), B: ok_file(db)}),
		('single-statement-root', A, {A: ok_file(da)}),
		('single-statement-with-comment', A, {A: ok_file(imp(B), da), B: ok_file(['comment', 'about'], db)}),
		('import-only-root', A, {A: ok_file(imp(B)), B: ok_file(db, decl('TyB2'))}),
		('import-only-inner', A, {A: ok_file(imp(B), da), B: ok_file(imp(C)), C: ok_file(dc, decl('TyC2'))}),
		('imports-only', A, {A: ok_file(imp(B), imp(C)), B: ok_file(db, decl('TyB2')), C: ok_file(dc, decl('TyC2'))}),
		('comment-only-root', A, {A: ok_file(['comment', 'nothing here'])}),
		('comment-only-leaf', A, {A: ok_file(imp(B), da), B: ok_file(['comment', 'nothing here'])}),
		('comments-only-leaf', A, {A: ok_file(imp(B), da), B: ok_file(['comment', 'one'], ['comment', 'two'])}),
		('comment-and-import', A, {A: ok_file(['comment', 'all'], imp(B)), B: ok_file(db, decl('TyB2'))}),
		('reference-through-import', A, {A: ok_file(imp(B), decl('StA', 'struct', ['TyB'])), B: ok_file(db, decl('TyB2'))}),
		('reference-through-import-only-file', A, {A: ok_file(imp(B), decl('StA', 'struct', ['TyC'])), B: ok_file(imp(C)), C: ok_file(dc, decl('TyC2'))}),
		('unreachable-file-not-included', A, {A: ok_file(imp(B), da), B: ok_file(db, decl('TyB2')), C: ok_file(dc, decl('TyC2'))}),
		('reference-to-unreachable-file', A, {A: ok_file(imp(B), decl('StA', 'struct', ['TyC'])), B: ok_file(db, decl('TyB2')), C: ok_file(dc, decl('TyC2'))}),
		('unknown-type', A, {A: ok_file(imp(B), da), B: ok_file(db, decl('StB', 'struct', ['Nope']))}),
		('post-expansion-failure', A, {A: ok_file(imp(B), da), B: ok_file(db, decl('StB', 'struct', [], post_ok=False))}),
		('missing-root', 'nothere.cats', {A: ok_file(da, decl('TyA2'))}),
		('missing-import', A, {A: ok_file(imp(B), da), B: ok_file(imp('nothere.cats'), db)}),
		('missing-import-after-cycle', A, {A: ok_file(imp(B), imp('gone.cats'), da), B: ok_file(imp(A), db)}),
		('syntax-error-leaf', A, {A: ok_file(imp(B), da), B: {'kind': 'syntax', 'text': 'using lowercase = uint32\n'}}),
		('syntax-error-empty-leaf', A, {A: ok_file(imp(B), da), B: {'kind': 'syntax', 'text': ''}}),
		('same-basename-in-two-directories', A, {A: ok_file(imp('sub/a.cats'), imp('sub/deep/a.cats'), da), 'sub/a.cats': ok_file(db, decl('TyB2')),
			'sub/deep/a.cats': ok_file(dd, decl('TyD2'))}),
		('root-in-subdirectory', C, {C: ok_file(imp(D), imp(A), dc), D: ok_file(imp(C), dd), A: ok_file(da, decl('TyA2'))}),
	]
	# file names outside ASCII (import names are string literals of the DSL; the file system gets the same characters)
	E, F, G = 'tüpes.cats', 'схема/типы.cats', 'sub/名前.cats'
	cases.append(('non-ascii-names', A, {A: ok_file(imp(E), imp(F), da), E: ok_file(imp(G), db), F: ok_file(dc), G: ok_file(dd)}))
	# files whose paths differ only in letter case are different files (the tool runs on case sensitive file systems): a file name, a
	# directory name, each importing its twin
	T1, T2, R1, R2, M1, M2 = 'types.cats', 'Types.cats', 'state/Restrictions.cats', 'state/restrictions.cats', 'Mosaic/types.cats', 'mosaic/types.cats'
	cases.append(('names-differing-in-letter-case', A, {A: ok_file(imp(T1), imp(T2), imp(R1), imp(R2), da), T1: ok_file(db), T2: ok_file(imp(T1), dc),
		R1: ok_file(dd), R2: ok_file(imp(R1), decl('TyE'))}))
	cases.append(('directories-differing-in-letter-case', A, {A: ok_file(imp(M1), imp(M2), da), M1: ok_file(db, decl('TyB2')), M2: ok_file(imp(M1), dc)}))
	out = []
	# every validation fault family in the root, in a mid-level file and in a leaf; plain YAML output for the root position,
	# a working generator for the mid-level one, a failing generator for the leaf (validation comes first: still 2, nothing written)
	for key, _, _, _, _ in VALIDATION_FAULTS:
		for position, flags in (('root', 'yaml'), ('mid', 'gen_ok'), ('leaf', 'gen_boom')):
			files = {A: ok_file(imp(B), decl('TyA'), decl('TyA2')), B: ok_file(imp(C), decl('TyB'), decl('TyB2')), C: ok_file(decl('TyC'), decl('TyC2'))}
			target = {'root': A, 'mid': B, 'leaf': C}[position]
			files[target]['items'] += fault_decls(key, 'FaultTy')
			out.append({'name': f'directed:validation:{key}:{position}', 'root': A, 'files': files, 'flags': flags, 'cli': 'one', 'directed': True})
	# the same fault in a file that exists but is not imported must not matter
	files = {A: ok_file(imp(B), decl('TyA')), B: ok_file(decl('TyB'), decl('TyB2')), C: ok_file(decl('TyC'), *fault_decls('unknown-unnamed-inline', 'FaultTy'))}
	out.append({'name': 'directed:validation:fault-in-unimported-file', 'root': A, 'files': files, 'flags': 'yaml', 'cli': 'one', 'directed': True})
	for index, (name, root, files) in enumerate(cases):
		for flags in (('yaml', 'gen_ok', 'gen_boom', 'none') if name in ('diamond', 'unknown-type', 'missing-import') else ('yaml',)):
			out.append({'name': f'directed:{name}', 'root': root, 'files': files, 'flags': flags, 'cli': True, 'directed': True})
		if name == 'diamond':
			# a set that parses and validates: every way the requested generation can fail must still give a non-zero exit status
			for boom in BOOM_GENERATORS[1:]:
				out.append({'name': f'directed:{name}:generation-fails:{boom}', 'root': root, 'files': files, 'flags': 'gen_boom', 'boom': boom,
					'cli': True, 'directed': True})
	for case in out:
		# a file of the same relative name as every import (present or dangling) below the working directory of the `cwd=subdir` runs
		case['decoys'] = import_names(case['files'])
	return out


def import_names(files):
	names = []
	for spec in files.values():
		for item in (spec['items'] if spec['kind'] == 'ok' else []):
			if item[0] == 'import' and item[1] not in names and not os.path.isabs(item[1]):
				names.append(item[1])
	return names


def respell_case(rng, path):
	"""the same path with the letter case of one component changed (a directory, or the first letter of the file name)"""
	parts = path.split('/')
	index = rng.randrange(len(parts))
	parts[index] = parts[index][0].swapcase() + parts[index][1:]
	return '/'.join(parts)


def random_case(rng, number):
	count = rng.randrange(3, 13)
	dirs = ['', '', '', 'sub/', 'sub/deep/', 'other/']
	paths = []
	while len(paths) < count:
		# base names repeat across directories now and then: a file's identity is its whole path
		candidate = f'{rng.choice(dirs)}f{rng.randrange(count) if rng.randrange(4) == 0 else len(paths)}.cats'
		if paths and rng.randrange(8) == 0:
			candidate = respell_case(rng, rng.choice(paths))     # ... up to letter case: `sub/f1.cats` and `Sub/f1.cats` are two files
		if candidate not in paths:
			paths.append(candidate)
	style = rng.choice(['chain', 'diamond', 'dag', 'dag', 'cyclic', 'cyclic', 'cyclic-root', 'dense'])
	edges = {p: [] for p in paths}
	reachable_core = paths[:max(2, count - rng.randrange(0, 3))]   # the rest exists but may stay unimported
	if style == 'chain':
		for a, b in zip(reachable_core, reachable_core[1:]):
			edges[a].append(b)
	elif style == 'diamond':
		top, bottom = reachable_core[0], reachable_core[-1]
		for mid in reachable_core[1:-1] or [bottom]:
			edges[top].append(mid)
			if mid != bottom:
				edges[mid].append(bottom)
	else:
		for index, p in enumerate(reachable_core[1:], 1):
			edges[rng.choice(reachable_core[:index])].append(p)      # spanning tree: everything in the core is reachable
		extra = rng.randrange(0, count + (count if style == 'dense' else 0))
		for _ in range(extra):
			i, j = rng.randrange(len(reachable_core)), rng.randrange(len(reachable_core))
			if style in ('dag', 'dense') and i >= j:
				i, j = j, i + (1 if i == j else 0)
				if j >= len(reachable_core):
					continue
			edges[reachable_core[i]].append(reachable_core[j])
		if style == 'cyclic-root':
			edges[rng.choice(reachable_core)].append(paths[0])
	for p in paths:
		rng.shuffle(edges[p])
		if edges[p] and rng.randrange(4) == 0:
			edges[p].append(rng.choice(edges[p]))                     # repeated import
		if rng.randrange(10) == 0:
			edges[p].insert(rng.randrange(len(edges[p]) + 1), p)      # self import
	names = []
	counter = [0]

	def fresh(prefix):
		counter[0] += 1
		return f'{prefix}{number % 97}x{counter[0]}'

	files = {}
	for p in paths:
		content = rng.choice(['normal', 'normal', 'normal', 'single-decl', 'no-decl', 'comments', 'interleaved'])
		decls = []
		if content == 'single-decl' and not edges[p]:
			decls = [decl(fresh('Ty'), comment=rng.randrange(2) == 0)]
		elif content == 'no-decl':
			decls = []
		else:
			for _ in range(rng.randrange(1, 4)):
				form = rng.choice(['alias', 'alias', 'struct', 'enum'])
				decls.append(decl(fresh({'alias': 'Ty', 'struct': 'St', 'enum': 'En'}[form]), form, comment=rng.randrange(4) == 0))
		names += [(p, d[1]['name'], d[1]['form']) for d in decls]
		items = [imp(q) for q in edges[p]]
		if content == 'interleaved':
			for d in decls:
				items.insert(rng.randrange(len(items) + 1), d)
		else:
			items += decls
		if content == 'comments' or rng.randrange(5) == 0:
			for _ in range(rng.randrange(1, 3)):
				items.insert(rng.randrange(len(items) + 1), ['comment', f'note {rng.randrange(100)}'])
		if not items:
			items = [['comment', 'empty on purpose']]
		files[p] = {'kind': 'ok', 'items': items}
	# references between declarations (resolved against the whole set, whichever file declares them)
	structs = [item[1] for spec in files.values() for item in spec['items'] if item[0] == 'decl' and item[1]['form'] == 'struct']
	targets = [name for _, name, form in names if form != 'struct']
	for struct in structs:
		if targets and rng.randrange(2):
			struct['refs'] = [rng.choice(targets) for _ in range(rng.randrange(1, 3))]
	fault = rng.choice(['none'] * 6 + ['missing', 'syntax', 'unknown', 'post', 'missing-root', 'catalogue', 'catalogue', 'catalogue'])
	if fault == 'missing':
		victim = rng.choice(paths)
		files[victim]['items'].insert(rng.randrange(len(files[victim]['items']) + 1), imp(f'gone{number % 7}.cats'))
	elif fault == 'syntax':
		victim = rng.choice(paths[1:])
		files[victim] = {'kind': 'syntax', 'text': rng.choice(['using lowercase = uint32\n', 'struct\n', '', 'import nothing\n', 'using Ab = uint32'])}
	elif fault == 'catalogue':
		key = rng.choice(VALIDATION_FAULTS)[0]
		victim = rng.choice(paths)
		if files[victim]['kind'] == 'ok':
			position = rng.randrange(len(files[victim]['items']) + 1)
			files[victim]['items'][position:position] = fault_decls(key, fresh('Fa'))
		fault = f'validation-{key}'
	elif fault == 'unknown' and structs:
		rng.choice(structs)['refs'].append('Nowhere')
	elif fault == 'post' and structs:
		rng.choice(structs)['post_ok'] = False
	root = paths[0] if fault != 'missing-root' else 'absent.cats'
	flags = rng.choice(['yaml', 'yaml', 'yaml', 'gen_ok', 'gen_boom', 'none'])
	# files of the same relative names as some imports - every dangling one - below the directory some runs are started from
	decoys = [name for name in import_names(files) if name not in files or rng.randrange(3) == 0]
	return {'name': f'random:{style}:{fault}', 'root': root, 'files': files, 'flags': flags, 'cli': False, 'directed': False,
		'boom': rng.choice(BOOM_GENERATORS), 'decoys': decoys}


def gen_cases(rng, tier):
	cases = directed_cases()
	total = 60 if tier == 'quick' else 3000
	cli_every = 1 if tier == 'quick' else 10
	for number in range(total):
		case = random_case(rng, number)
		case['cli'] = number % cli_every == 0
		cases.append(case)
	for index, case in enumerate(cases):
		case['id'] = index
	return cases


# ---------------------------------------------------------------------------------------------------------------------
# property oracle P (from the property text; iterative, independent of the model)

def oracle(case):
	"""Expected (parse part, exit status, output written) of the root schema."""
	files = case['files']
	visited = set()
	names = []
	decls = []
	stack = []     # frames [path, imports, position]
	failure = None

	def enter(path):
		if path in visited:
			return None
		visited.add(path)
		spec = files.get(path)
		if spec is None:
			return 'caught'      # missing file
		if spec['kind'] == 'syntax':
			return 'uncaught'    # unparsable file
		stack.append([path, [item[1] for item in spec['items'] if item[0] == 'import'], 0])
		return None

	failure = enter(case['root'])
	while stack and failure is None:
		frame = stack[-1]
		if frame[2] < len(frame[1]):
			frame[2] += 1
			failure = enter(frame[1][frame[2] - 1])
			continue
		stack.pop()
		for item in files[frame[0]]['items']:
			if item[0] == 'decl':
				names.append(item[1]['name'])
				decls.append(item[1])
	want_output = case['flags'] != 'none'
	if failure is not None:
		return failure, 1, False
	declared = set(names)
	valid = all(ref in declared for d in decls for ref in d['refs']) and all(d['post_ok'] for d in decls)
	if not valid:
		return 'ok:' + ','.join(names), 2, False
	if case['flags'] == 'gen_boom':
		return 'ok:' + ','.join(names), 1, False
	return 'ok:' + ','.join(names), 0, want_output


def reachable_files(case):
	seen = []
	todo = [case['root']]
	while todo:
		path = todo.pop()
		if path in seen or path not in case['files']:
			continue
		seen.append(path)
		spec = case['files'][path]
		if spec['kind'] == 'ok':
			todo += [item[1] for item in spec['items'] if item[0] == 'import']
	return seen


def reachable_faults(case):
	"""Keys of the catalogue faults planted in files the root reaches."""
	return [item[1]['fault'] for p in reachable_files(case) if case['files'][p]['kind'] == 'ok'
		for item in case['files'][p]['items'] if item[0] == 'decl' and item[1].get('fault')]


def classify(case, observed):
	"""Stable signature of a property failure, by the shape of the failing graph and the symptom."""
	reach = reachable_files(case)
	shapes = {p: lark_statements(case['files'][p]) for p in reach if case['files'][p]['kind'] == 'ok'}
	expected = oracle(case)
	faults = reachable_faults(case)
	if faults and observed.get('parse') == expected[0] and expected[1] == 2 and observed.get('exit') != 2:
		# resolution is right and only validation fails, yet the status is not 2
		return f'validation-only-failure-exits-{observed.get("exit")}:{faults[0]}'
	if 'AttributeError' in observed.get('exception', '') and any(shape == ['comment'] for shape in shapes.values()):
		return 'comment-only-file-crash'
	if any(shape == ['import'] for shape in shapes.values()):
		return 'import-only-file-dropped'
	# the root is imported again by a file of the set (a cycle through the root, or the root importing itself): with the root keyed
	# differently from the imports it is processed a second time -- its declarations twice, or its later imports pulled forward
	root = case['root']
	root_imported = any(item[0] == 'import' and item[1] == root for p, spec in case['files'].items() if p in shapes for item in spec['items'])
	observed_names = observed.get('parse', '')[3:].split(',') if observed.get('parse', '').startswith('ok:') else []
	expected_parse = oracle(case)[0]
	expected_names = expected_parse[3:].split(',') if expected_parse.startswith('ok:') else None
	if root_imported and expected_names is not None and observed_names != expected_names and set(observed_names) == set(expected_names):
		return 'root-reimported-through-cycle-duplicates'
	blob = json.dumps([case['root'], {p: render_file(s) for p, s in sorted(case['files'].items())}, case['flags']], sort_keys=True)
	return 'unexpected-resolution:' + hashlib.sha256(blob.encode('utf8')).hexdigest()[:12]


# ---------------------------------------------------------------------------------------------------------------------
# implementation side (worker processes)

class CaseTimeout(Exception):
	pass


def _alarm(_signum, _frame):
	raise CaseTimeout()


def materialise(case, directory):
	for path, spec in case['files'].items():
		target = directory / path
		target.parent.mkdir(parents=True, exist_ok=True)
		target.write_text(render_file(spec), encoding='utf8', newline='')
	(directory / 'wd_sub').mkdir(exist_ok=True)
	# decoys: well-formed files that are NOT part of the schema set (imports are rooted at the include directory, never at the directory
	# the tool is started from); they sit below wd_sub/, the working directory of the `cwd=subdir` variants
	for index, path in enumerate(case.get('decoys') or []):
		target = directory / 'wd_sub' / path
		target.parent.mkdir(parents=True, exist_ok=True)
		target.write_text(f'using DecoyTy{index} = uint8\n', encoding='utf8', newline='')


def letter_case_matters(directory):
	"""the scratch file system keeps `x` and `X` apart (else graphs with names that differ in letter case only cannot be materialised)"""
	probe = Path(directory) / 'CaseProbe'
	probe.mkdir(parents=True, exist_ok=True)
	(probe / 'a.txt').write_text('lower', encoding='utf8')
	(probe / 'A.txt').write_text('upper', encoding='utf8')
	distinct = (probe / 'a.txt').read_text(encoding='utf8') == 'lower'
	shutil.rmtree(probe, ignore_errors=True)
	return distinct


def class_parse(include, root):
	"""LarkMultiFileParser in-process: ('ok:names' | 'caught' | 'uncaught', exception name)."""
	from catparser.__main__ import LarkMultiFileParser
	from catparser.ast import AstException
	parser = LarkMultiFileParser()
	parser.set_include_path(str(include))
	try:
		with contextlib.redirect_stdout(io.StringIO()):
			descriptors = parser.parse(str(root))
		return 'ok:' + ','.join(d.name for d in descriptors), ''
	except (AstException, OSError) as ex:
		return 'caught', type(ex).__name__
	except CaseTimeout:
		raise
	except Exception as ex:  # pylint: disable=broad-except
		return 'uncaught', type(ex).__name__


def flag_args(flags, output, boom='Boom'):
	if flags == 'none':
		return []
	if flags == 'yaml':
		return ['-o', str(output)]
	return ['-o', str(output), '-g', 'c17gen.Ok' if flags == 'gen_ok' else f'c17gen.{boom}']


def main_inprocess(cwd, args):
	"""catparser.__main__.main() with the given argv from the given directory: (exit status, exception name)."""
	from catparser.__main__ import main
	old_argv, old_cwd = sys.argv, os.getcwd()
	sys.argv = ['catparser'] + args
	os.chdir(cwd)
	code, raised = 0, ''
	console = io.StringIO()
	try:
		with contextlib.redirect_stdout(console), contextlib.redirect_stderr(console):
			main()
	except SystemExit as ex:
		code = ex.code if isinstance(ex.code, int) else (0 if ex.code is None else 1)
	except CaseTimeout:
		raise
	except BaseException as ex:  # pylint: disable=broad-except
		code, raised = 1, type(ex).__name__   # CPython exits with 1 on an uncaught exception
	finally:
		sys.argv = old_argv
		os.chdir(old_cwd)
	return code, raised, console.getvalue()


def variants(directory, root, full):
	"""(label, cwd, schema spelling, include spelling)."""
	directory = Path(directory)
	sub = directory / 'wd_sub'
	far = directory.parent.parent
	rel_far = os.path.relpath(directory, far)
	out = [
		('cwd=include,relative', directory, root, '.'),
		('cwd=far,absolute', far, str(directory / root), str(directory)),
		('cwd=include,absolute-schema,relative-include', directory, str(directory / root), '.'),
	]
	if full:
		out += [
			('cwd=subdir,relative', sub, f'../{root}', '..'),
			('cwd=far,relative', far, f'{rel_far}/{root}', rel_far),
			('cwd=subdir,relative-schema,absolute-include', sub, f'../{root}', str(directory)),
		]
	return out


def names_of_output(flags, data):
	if data is None:
		return None
	try:
		if flags == 'yaml':
			import yaml
			loaded = yaml.safe_load(data.decode('utf8'))
			return 'ok:' + ','.join(entry['name'] for entry in loaded)
		return 'ok:' + ','.join(data.decode('utf8').split())
	except Exception as ex:  # pylint: disable=broad-except
		return f'unreadable-output:{type(ex).__name__}'


def execute(job):
	"""Runs one case: class parse, main in-process and (if asked) the CLI over the variants.  Returns the observations."""
	case, base, genpath = job
	directory = Path(base) / f'c{case["id"]}'
	outdir = Path(base) / f'o{case["id"]}'
	signal.signal(signal.SIGALRM, _alarm)
	signal.alarm(120)
	result = {'id': case['id'], 'runs': []}
	try:
		if genpath not in sys.path:
			sys.path.insert(0, genpath)
		directory.mkdir(parents=True)
		outdir.mkdir(parents=True)
		materialise(case, directory)
		result['parse'], result['exception'] = class_parse(directory, directory / case['root'])
		flags = case['flags']
		cli_jobs = []
		for index, (label, cwd, schema, include) in enumerate(variants(directory, case['root'], case['cli'] is True)):
			output = outdir / f'in{index}.out'
			code, raised, console = main_inprocess(cwd, ['-s', schema, '-i', include, '-q'] + flag_args(flags, output, case.get('boom', 'Boom')))
			data = output.read_bytes() if output.is_file() else None
			result['runs'].append({'how': 'main()', 'variant': label, 'exit': code, 'raised': raised,
				'output': None if data is None else data.decode('utf8', 'replace'), 'names': names_of_output(flags, data)})
			if index == 0:
				result['console'] = console[-4000:]
			if case['cli'] is True or (case['cli'] == 'one' and index == 0):
				output = outdir / f'cli{index}.out'
				quiet = ['-q'] if index else []
				cli_jobs.append((label, cwd, ['-s', schema, '-i', include] + quiet + flag_args(flags, output, case.get('boom', 'Boom')), output, not quiet))
		env = common.impl_env()
		env['PYTHONPATH'] = genpath + os.pathsep + env['PYTHONPATH']
		procs = []
		for label, cwd, args, output, loud in cli_jobs:
			procs.append((label, output, loud, subprocess.Popen(
				['timeout', '100', '/usr/bin/python3', '-m', 'catparser'] + args, cwd=cwd, env=env,
				stdout=subprocess.PIPE, stderr=subprocess.STDOUT)))
		for label, output, loud, proc in procs:
			stdout, _ = proc.communicate()
			data = output.read_bytes() if output.is_file() else None
			text = stdout.decode('utf8', 'replace')
			raised = ''
			if 'Traceback (most recent call last)' in text:
				raised = text.strip().split('\n')[-1].split(':')[0].split('.')[-1]
			run = {'how': 'cli', 'variant': label, 'exit': proc.returncode, 'raised': raised,
				'output': None if data is None else data.decode('utf8', 'replace'), 'names': names_of_output(flags, data)}
			if loud and flags == 'yaml' and data is not None:
				# without -q the descriptors are also dumped to the console: must be the same YAML
				run['console_matches_output'] = text.replace('\r\n', '\n').endswith(data.decode('utf8'))
			result['runs'].append(run)
	except CaseTimeout:
		result['exhausted'] = True
	finally:
		signal.alarm(0)
		shutil.rmtree(directory, ignore_errors=True)
		shutil.rmtree(outdir, ignore_errors=True)
	return result


# ---------------------------------------------------------------------------------------------------------------------
# model side

def qlit(text):
	assert all(c.isalnum() or c in '/._- ' for c in text), text
	return f'"{text}"'


def model_expr(case):
	rows = []
	# file names are opaque to the model: names outside the literal alphabet are renamed consistently (files, import targets, root)
	aliases = {}

	def qpath(path):
		if all(c.isascii() and (c.isalnum() or c in '/._- ') for c in path):
			return qlit(path)
		aliases.setdefault(path, f'renamed{len(aliases)}.cats')
		return qlit(aliases[path])
	for path, spec in case['files'].items():
		if spec['kind'] == 'syntax':
			rows.append(f'({qpath(path)}, Unparsable)')
			continue
		items = []
		for item in spec['items']:
			if item[0] == 'import':
				items.append(f'Import {qpath(item[1])}')
			elif item[0] == 'comment':
				items.append('Comment')
			else:
				refs = '; '.join(qlit(r) for r in item[1]['refs'])
				items.append(f'Decl {{| dname := {qlit(item[1]["name"])}; drefs := [{refs}]; dpost_ok := {"true" if item[1]["post_ok"] else "false"} |}}')
		rows.append(f'({qpath(path)}, Parsed [{"; ".join(items)}])')
	flags = case['flags']
	outp = 'false' if flags == 'none' else 'true'
	gen = 'true' if flags in ('gen_ok', 'gen_boom') else 'false'
	gen_ok = 'false' if flags == 'gen_boom' else 'true'
	return f'render_run [{"; ".join(rows)}] {qpath(case["root"])} {outp} {gen} {gen_ok}'


# ---------------------------------------------------------------------------------------------------------------------

def canonical(parse, code, written):
	return f'{parse}|exit={code}|written={"T" if written else "F"}'


def judge(case, result):
	"""Returns (implementation's canonical observation, list of problems (text), observed dict)."""
	problems = []
	if result.get('exhausted'):
		return 'exhausted', ['the case did not finish within its time limit'], {'parse': 'exhausted'}
	expected_parse, expected_exit, expected_written = oracle(case)
	runs = result['runs']
	first = runs[0]
	observed = {'parse': result['parse'], 'exception': result['exception'] or first['raised'], 'exit': first['exit'],
		'written': first['output'] is not None}
	if result['parse'] != expected_parse:
		problems.append(f'LarkMultiFileParser.parse gives {result["parse"]} {result["exception"]}; reachable files in import order give {expected_parse}')
	for run in runs:
		where = f'{run["how"]} [{run["variant"]}]'
		if run['exit'] != expected_exit:
			problems.append(f'{where}: exit status {run["exit"]} {run["raised"]}, expected {expected_exit}')
		if (run['output'] is not None) != expected_written:
			problems.append(f'{where}: output {"written" if run["output"] is not None else "not written"}, expected {"written" if expected_written else "none"}')
		if run['output'] is not None and expected_written and run['names'] != expected_parse:
			problems.append(f'{where}: output lists {run["names"]}, expected {expected_parse}')
		if run['output'] != first['output'] or run['exit'] != first['exit']:
			problems.append(f'{where}: result differs from {first["how"]} [{first["variant"]}] (depends on the working directory / path spelling)')
		if run.get('console_matches_output') is False:
			problems.append(f'{where}: console YAML differs from the output file')
	return canonical(result['parse'], first['exit'], first['output'] is not None), problems, observed


def replay_payload(case, expected, observed, problems):
	return {
		'case': case, 'schema_files': {p: render_file(s) for p, s in sorted(case['files'].items())}, 'root': case['root'], 'flags': case['flags'],
		'expected': {'declarations': expected[0], 'exit': expected[1], 'output_written': expected[2]},
		'observed': observed, 'problems': problems[:8],
		'how': 'run.py replay <this file>  (writes schema_files to a scratch directory, runs LarkMultiFileParser and `python -m catparser -s <root> -i <dir>`)'}


def run_cases(cases, base):
	genpath = str(Path(base) / 'genpkg')
	for name, text in GEN_PACKAGE.items():
		target = Path(genpath) / name
		target.parent.mkdir(parents=True, exist_ok=True)
		target.write_text(text, encoding='utf8')
	jobs = [(case, str(base), genpath) for case in cases]
	context = multiprocessing.get_context('fork')
	with context.Pool(common.NCPU) as pool:
		return pool.map(execute, jobs, chunksize=4)


def shrink(case, signature, base):
	"""Drops files' items one at a time while the same failure signature remains (in-process class/main runs only)."""
	current = json.loads(json.dumps(case))
	current['cli'] = False
	budget = [150]
	genpath = str(Path(base) / 'genpkg')

	def still_fails(trial):
		budget[0] -= 1
		trial['id'] = f's{budget[0]}'
		_, problems, observed = judge(trial, execute((trial, str(base), genpath)))
		return bool(problems) and classify(trial, observed).split(':')[0] == signature.split(':')[0]

	progress = True
	while progress and budget[0] > 0:
		progress = False
		for path in list(current['files']):
			if path == current['root'] or budget[0] <= 0:
				continue
			trial = json.loads(json.dumps(current))
			del trial['files'][path]
			for spec in trial['files'].values():
				if spec['kind'] == 'ok':
					spec['items'] = [item for item in spec['items'] if item != ['import', path]] or [['comment', 'emptied']]
			if still_fails(trial):
				current = trial
				progress = True
		for path in list(current['files']):
			spec = current['files'][path]
			if spec['kind'] != 'ok':
				continue
			index = 0
			while index < len(spec['items']) and len(spec['items']) > 1 and budget[0] > 0:
				trial = json.loads(json.dumps(current))
				del trial['files'][path]['items'][index]
				if still_fails(trial):
					current = trial
					spec = current['files'][path]
					progress = True
				else:
					index += 1
	return current


def run(check, unrecognised):
	check.trusted += [
		'translator harness/gens/c17.py + harness/gen.py (ResolveOps: membership operator, rule-name constants, import child index and exit '
		'constants of LarkMultiFileParser.parse / _validate / main; rule names read off catbuffer.lark); names of called functions and the '
		'caught exception classes are part of the pinned skeleton',
		'modelled, not verified: lark (a file is a list of top-level statements; `?start` hands a lone statement back unwrapped), '
		'pathlib.Path.resolve as the file identity, argparse, CPython exit status 1 on an uncaught exception, yaml.dump',
		'validation is modelled only as far as resolution matters (every referenced type is declared somewhere in the resolved set; one '
		'post-expansion-only rule); the validator itself is C06: the fault catalogue (one declaration per AstValidator message family, stage as '
		'observed on the pinned tree) enters the model only as pre-fails / post-fails']
	check.assume += [
		'path spellings inside import statements are canonical (relative to the include root, no `..`); type names are unique across files',
		'the file system does not change during a run']
	check.extra['rule'] = 'directed small graphs (one feature each: chain, diamond, repeated/self imports, cycles through and not through ' \
		'the root, single-statement / import-only / comment-only files, references through imports, missing / unparsable files, validation ' \
		'failures before and after expansion, generator ok/failing/absent; every AstValidator error family of the fault catalogue planted in ' \
		'the root, a mid-level file and a leaf with YAML / working generator / failing generator requested: exit status exactly 2, nothing written) + seeded random import graphs of 3-12 files (styles chain, diamond, ' \
		'dag, dense, cyclic, cyclic through root; faults none/missing/syntax/unknown/post/missing-root/any catalogue entry); every graph is written as .cats files ' \
		'and run through LarkMultiFileParser and main() in-process from 3 (cwd, spelling) variants, CLI subprocesses from 6 variants for the ' \
		'directed ones and a subset of the random ones; distinct = distinct file contents; all non-trivial'
	mine = unrecognised.get('ResolveOps') or []
	if mine:
		# an anchor whose shape is no longer the recognised one is a broken tie (DESIGN section 0, step 2): the theorems then speak about
		# the pinned shape only; the correspondence and the oracle below look for a concrete failing input
		check.notes.append(f'anchors not recognised, pinned (intended-behaviour) hole values used for them: {mine}')
		for key in mine:
			check.broken.append(f'shape:{key}')
	check.prove('C17.v')
	cases = gen_cases(check.rng, check.tier)
	base = common.scratch_dir('c17')
	try:
		if not letter_case_matters(base):
			check.notes.append('the scratch file system folds letter case: graphs with paths that differ in letter case only are left out')
			cases = [case for case in cases if len({path.casefold() for path in case['files']}) == len(case['files'])]
		results = run_cases(cases, base)
		models = coq_eval(IMPORTS, [model_expr(case) for case in cases], 'c17')
		shrunk = 0
		seen_signatures = set()
		for case, result, model in zip(cases, results, models):
			expected = oracle(case)
			impl, problems, observed = judge(case, result)
			blob = json.dumps([case['root'], {p: render_file(s) for p, s in sorted(case['files'].items())}, case['flags']], sort_keys=True)
			check.case(case['name'] + (':cli' if case['cli'] else ''), hashlib.sha256(blob.encode('utf8')).hexdigest())
			if impl != model:
				check.disagree('Resolve-model-vs-LarkMultiFileParser/main', {'name': case['name'], 'root': case['root'],
					'schema_files': {p: render_file(s) for p, s in sorted(case['files'].items())}, 'flags': case['flags']}, impl, model)
			if canonical(*expected) != model:
				# the oracle and the theorem-carrying model must agree; a difference means the holes no longer have the intended values
				check.disagree('Resolve-model-vs-property-oracle', {'name': case['name'], 'root': case['root']}, canonical(*expected), model)
			planted = reachable_faults(case)
			# (a post-expansion message can be masked by an unrelated pre-expansion error of a random graph: only where it must show)
			must_show = planted and (case['directed'] or FAULT_BY_KEY[planted[0]][1] == 'pre')
			if must_show and expected[1] == 2 and FAULT_BY_KEY[planted[0]][4] not in result.get('console', ''):
				# the catalogue is tied to AstValidator's messages: an entry that no longer triggers its family is a stale catalogue
				check.disagree('fault-catalogue-vs-AstValidator', {'name': case['name'], 'fault': planted[0]},
					result.get('console', '')[-300:], FAULT_BY_KEY[planted[0]][4])
			if problems:
				signature = classify(case, observed)
				report = case
				if signature not in KNOWN_SIGNATURES and not case['directed'] and signature.split(':')[0] not in seen_signatures and shrunk < 3:
					shrunk += 1
					report = shrink(case, signature, base)
					_, problems2, observed2 = judge(report, execute((dict(report, id='final'), str(base), str(Path(base) / 'genpkg'))))
					if problems2:
						problems, observed, expected = problems2, observed2, oracle(report)
						signature = classify(report, observed)
					else:
						report = case
				seen_signatures.add(signature.split(':')[0])
				check.fail(signature, problems[0], replay_payload(report, expected, observed, problems))
		for case, result in list(zip(cases, results))[::max(1, len(cases) // 6)]:
			check.sample({'case': case['name'], 'root': case['root'], 'files': sorted(case['files']), 'flags': case['flags'],
				'observed': canonical(result.get('parse'), result['runs'][0]['exit'] if result.get('runs') else None,
					bool(result.get('runs')) and result['runs'][0]['output'] is not None)})
	finally:
		shutil.rmtree(base, ignore_errors=True)


def replay(data):
	common.setup_impl_path()
	payload = data['replay']
	case = payload['case']
	case['id'] = 'replay'
	case['cli'] = True
	base = common.scratch_dir('c17-replay')
	try:
		genpath = Path(base) / 'genpkg'
		for name, text in GEN_PACKAGE.items():
			target = genpath / name
			target.parent.mkdir(parents=True, exist_ok=True)
			target.write_text(text, encoding='utf8')
		result = execute((case, str(base), str(genpath)))
		expected = oracle(case)
		impl, problems, _ = judge(case, result)
		for path, text in sorted(payload['schema_files'].items()):
			print(f'--- {path}\n{text}', end='')
		print('root:', case['root'], ' flags:', case['flags'])
		print('expected:', canonical(*expected))
		print('observed:', impl)
		for problem in problems[:8]:
			print(' !', problem)
		print('property:', 'FAILS' if problems else 'holds')
		return 1 if problems else 0
	finally:
		shutil.rmtree(base, ignore_errors=True)
