"""C07: signatures verify exactly for the signed payload and are reference-exact (Symbol and NEM)."""
import hashlib

from .. import edmodel
from ..common import NCPU, SHIMS, run as run_command
from ..edmodel import hexarg

MANIFEST = {
	'text': 'proof, partial. Qed theorems (Props/C07.v): the signing payload over raw transaction bytes is seed || bytes[108:] resp. '
		'bytes[108:160] for the two aggregate types (payload_def), is independent of every byte outside that window (payload_ignores) and '
		'injective in the window (payload_covers); NEM non-verifiable window likewise; cosignature and voting-key-tree layouts. For every '
		'commutative group with Z-action, base point of order L and injective decodable encoding (Section hypotheses, no axioms) and both '
		'network flavours (hash, key reversal, clamp masks, canonicity test regenerated from nem/KeyPair.py / symbol/KeyPair.py): '
		'verify(pub k, m, sign k m) = true, signing is a function of (k, m), a valid signature verifies for m\' iff the challenge hashes '
		'agree mod L, two valid signatures with the same R have the same S, S >= L is refused, S = 0 is refused on NEM, the all-zero key '
		'is refused. PARTIAL because (1) that the concrete integer arithmetic EdZ (transcribed from external/ed25519.py, constants '
		'regenerated) satisfies those group hypotheses, i.e. the Curve25519 group law, is NOT proved: it is the named premise '
		'EdZ_group_premise of every *_partial theorem, supported only by sampling; (2) Symbol signing/verification is delegated by the '
		'SDK to cryptography/OpenSSL and NEM point arithmetic to libsodium (absent here: harness nacl.bindings shim), which are compared '
		'with the zarith-extracted EdZ byte for byte (signatures) and verdict for verdict (bit flips of payload, signature, key; S+L; '
		'S=0; zero, non-canonical and small-order keys) but not verified; (3) "any changed bit makes verification fail" is proved only '
		'up to the collision characterisation (hash collisions cannot be excluded by a theorem).',
	'design_ref': 'DESIGN.md section 4, C07',
	'technique': 'Coq proof over an abstract group + regenerated scheme constants; zarith-extracted executable model (cross-checked by '
		'vm_compute each run) compared with the Python implementation; oracle from the property text with cryptography / RFC 8032 reference',
}

SYM_AGGREGATE_TYPES = (0x4141, 0x4241)
L = edmodel.RL


def rand_bytes(rng, n):
	return bytes(rng.randrange(256) for _ in range(n))


# ---------------------------------------------------------------------------------------------------------------------
# implementation access

_FACADES = {}


PRIVATE_SEED = bytes(range(7, 39))


def facade_of(net, network):
	key = (net, network)
	if key not in _FACADES:
		if net == 'sym' and network.startswith('private-'):
			# a network OBJECT with the name and identifier of a shipped network but its own generation hash seed (a private chain)
			import datetime
			from symbolchain.CryptoTypes import Hash256
			from symbolchain.facade.SymbolFacade import SymbolFacade
			from symbolchain.symbol.Network import Network
			stock = {'testnet': Network.TESTNET, 'mainnet': Network.MAINNET}[network[len('private-'):]]
			private = Network(stock.name, stock.identifier, datetime.datetime(2022, 1, 1, tzinfo=datetime.timezone.utc), Hash256(PRIVATE_SEED))
			_FACADES[key] = SymbolFacade(private)
		elif net == 'sym':
			from symbolchain.facade.SymbolFacade import SymbolFacade
			_FACADES[key] = SymbolFacade(network)
		else:
			from symbolchain.facade.NemFacade import NemFacade
			_FACADES[key] = NemFacade(network)
	return _FACADES[key]


def outcome(function):
	"""Canonical outcome of a call returning a bool: T / F / reject (ValueError) / crash:<name>."""
	try:
		return 'T' if function() else 'F'
	except ValueError:
		return 'reject'
	except Exception as ex:  # pylint: disable=broad-except
		return f'crash:{type(ex).__name__}'


def codec_of(net):
	"""The generated codec module whose PublicKey / Signature classes transactions carry (sc on Symbol, nc on NEM)."""
	from symbolchain import nc, sc
	return sc if net == 'sym' else nc


def key_object(net, keytype, data):
	"""The public key bytes as the documented SDK class (CryptoTypes.PublicKey), as the codec class a transaction's
	signer_public_key has, or as a default-constructed codec key (all zero)."""
	from symbolchain.CryptoTypes import PublicKey
	if keytype == 'codec':
		return codec_of(net).PublicKey(data)
	if keytype == 'codec-default':
		assert data == bytes(32)
		return codec_of(net).PublicKey()
	return PublicKey(data)


def signature_object(net, keytype, data):
	from symbolchain.CryptoTypes import Signature
	return codec_of(net).Signature(data) if keytype.startswith('codec') else Signature(data)


# ---------------------------------------------------------------------------------------------------------------------
# generators

def build_transactions(rng, net, network, secret):
	"""Real transactions through the facade's transaction factory; returns [(kind, unsigned serialized bytes)]."""
	from symbolchain.CryptoTypes import Hash256, PrivateKey
	facade = facade_of(net, network)
	key_pair = facade.KeyPair(PrivateKey(secret))
	public_key = key_pair.public_key
	other = facade.KeyPair(PrivateKey(rand_bytes(rng, 32)))
	address = facade.network.public_key_to_address(other.public_key)
	result = []
	if net == 'sym':
		base = {'signer_public_key': public_key, 'fee': rng.randrange(2 ** 40), 'deadline': rng.randrange(2 ** 50)}
		message = rand_bytes(rng, rng.choice([0, 1, 17, 100, 300]))
		transfer = {
			**base, 'type': 'transfer_transaction_v1', 'recipient_address': address, 'message': message,
			'mosaics': [{'mosaic_id': rng.randrange(2 ** 63), 'amount': rng.randrange(2 ** 40)} for _ in range(rng.randrange(3))]}
		result.append(('transfer', facade.transaction_factory.create(transfer)))
		result.append(('account_key_link', facade.transaction_factory.create({
			**base, 'type': 'account_key_link_transaction_v1', 'linked_public_key': other.public_key, 'link_action': rng.choice(['link', 'unlink'])})))
		result.append(('hash_lock', facade.transaction_factory.create({
			**base, 'type': 'hash_lock_transaction_v1', 'mosaic': {'mosaic_id': rng.randrange(2 ** 63), 'amount': rng.randrange(2 ** 40)},
			'duration': rng.randrange(2 ** 30), 'hash': Hash256(rand_bytes(rng, 32))})))
		result.append(('namespace_registration', facade.transaction_factory.create({
			**base, 'type': 'namespace_registration_transaction_v1', 'registration_type': 'root', 'duration': rng.randrange(2 ** 30),
			'name': ''.join(rng.choice('abcdefghij0123456789') for _ in range(rng.randrange(1, 20)))})))
		for kind in ('aggregate_complete_transaction_v2', 'aggregate_bonded_transaction_v2'):
			embedded = [
				facade.transaction_factory.create_embedded({
					'type': 'transfer_transaction_v1', 'signer_public_key': rng.choice([public_key, other.public_key]),
					'recipient_address': address, 'message': rand_bytes(rng, rng.randrange(40))})
				for _ in range(rng.randrange(0, 4))]
			if rng.randrange(2):
				embedded.append(facade.transaction_factory.create_embedded({
					'type': 'mosaic_supply_change_transaction_v1', 'signer_public_key': public_key, 'mosaic_id': rng.randrange(2 ** 63),
					'delta': rng.randrange(2 ** 30), 'action': 'increase'}))
			aggregate = facade.transaction_factory.create({
				**base, 'type': kind, 'transactions_hash': facade.hash_embedded_transactions(embedded), 'transactions': embedded})
			result.append((kind.replace('_transaction_v2', ''), aggregate))
			if rng.randrange(2):
				with_cosignatures = facade.transaction_factory.deserialize(aggregate.serialize())
				try:
					for _ in range(rng.randrange(1, 3)):
						cosigner = facade.KeyPair(PrivateKey(rand_bytes(rng, 32)))
						with_cosignatures.cosignatures.append(facade.cosign_transaction(cosigner, with_cosignatures))
					result.append((kind.replace('_transaction_v2', '') + '+cosignatures', with_cosignatures))
				except Exception:  # pylint: disable=broad-except
					pass    # a signing failure is reported by the sign cases themselves
	else:
		base = {'signer_public_key': public_key, 'fee': rng.randrange(2 ** 40), 'timestamp': rng.randrange(2 ** 31), 'deadline': rng.randrange(2 ** 31)}
		text = ''.join(rng.choice('abc xyz 0123') for _ in range(rng.choice([0, 1, 17, 100])))
		transfer1 = {**base, 'type': 'transfer_transaction_v1', 'recipient_address': address, 'amount': rng.randrange(2 ** 40)}
		if text:
			transfer1['message'] = {'message_type': 'plain', 'message': text}
		result.append(('transfer_v1', facade.transaction_factory.create(transfer1)))
		transfer2 = {
			**base, 'type': 'transfer_transaction_v2', 'recipient_address': address, 'amount': rng.randrange(2 ** 40),
			'mosaics': [{'mosaic': {'mosaic_id': {'namespace_id': {'name': b'nem'}, 'name': b'xem'}, 'amount': rng.randrange(2 ** 40)}}][:rng.randrange(2)]}
		if text:
			transfer2['message'] = {'message_type': 'plain', 'message': text}
		transfer2 = facade.transaction_factory.create(transfer2)
		result.append(('transfer_v2', transfer2))
		result.append(('multisig_account_modification', facade.transaction_factory.create({
			**base, 'type': 'multisig_account_modification_transaction_v2', 'min_approval_delta': rng.randrange(1, 3),
			'modifications': [
				{'modification': {'modification_type': rng.choice(['add_cosignatory', 'delete_cosignatory']), 'cosignatory_public_key': rand_bytes(rng, 32).hex().upper()}}
				for _ in range(rng.randrange(1, 4))]})))
		inner = facade.transaction_factory.to_non_verifiable_transaction(transfer2)
		multisig = facade.transaction_factory.create({**base, 'type': 'multisig_transaction_v1', 'inner_transaction': inner})
		result.append(('multisig', multisig))
		if rng.randrange(2):
			from symbolchain import nc
			with_cosignatures = facade.transaction_factory.deserialize(multisig.serialize())
			try:
				for _ in range(rng.randrange(1, 3)):
					cosigner = facade.KeyPair(PrivateKey(rand_bytes(rng, 32)))
					cosignature = facade.transaction_factory.create({
						'type': 'cosignature_v1', 'signer_public_key': cosigner.public_key, 'fee': 1, 'timestamp': 2, 'deadline': 3,
						'other_transaction_hash': Hash256(rand_bytes(rng, 32)), 'multisig_account_address': address})
					cosignature.signature = nc.Signature(facade.sign_transaction(cosigner, cosignature).bytes)
					wrapper = nc.SizePrefixedCosignatureV1()
					wrapper.cosignature = cosignature
					with_cosignatures.cosignatures.append(wrapper)
				result.append(('multisig+cosignatures', with_cosignatures))
			except Exception:  # pylint: disable=broad-except
				pass    # a signing failure is reported by the sign cases themselves
		result.append(('cosignature', facade.transaction_factory.create({
			**base, 'type': 'cosignature_v1', 'other_transaction_hash': Hash256(rand_bytes(rng, 32)), 'multisig_account_address': address})))
	return [(kind, transaction.serialize()) for kind, transaction in result]


def gen_sign_cases(rng, count):
	"""One key pair per case (every fifth key signs two transactions), alternating networks; a few special keys."""
	cases = []
	special = [bytes(32), bytes([255] * 32), bytes([1] + [0] * 31)]
	keys = 0
	while len(cases) < count:
		net = 'sym' if keys % 2 == 0 else 'nem'
		network = rng.choice(['mainnet', 'testnet'] + (['private-testnet', 'private-mainnet'] if net == 'sym' else []))
		secret = special.pop() if special and keys % 9 == 4 else rand_bytes(rng, 32)
		transactions = build_transactions(rng, net, network, secret)
		rng.shuffle(transactions)
		for kind, data in transactions[:2 if keys % 5 == 0 else 1]:
			cases.append({'kind': 'sign', 'net': net, 'network': network, 'secret': secret.hex(), 'tx_kind': kind, 'tx': data.hex()})
		keys += 1
	return cases[:count]


# ---------------------------------------------------------------------------------------------------------------------
# sign: implementation / model / oracle

def impl_sign(case):
	from symbolchain.CryptoTypes import PrivateKey
	facade = facade_of(case['net'], case['network'])
	try:
		transaction = facade.transaction_factory.deserialize(bytes.fromhex(case['tx']))
		key_pair = facade.KeyPair(PrivateKey(bytes.fromhex(case['secret'])))
		payload = facade.extract_signing_payload(transaction)
		signature = facade.sign_transaction(key_pair, transaction)
		verdict = outcome(lambda: facade.verify_transaction(transaction, signature))
		return {
			'public': key_pair.public_key.bytes.hex(), 'payload': bytes(payload).hex(), 'signature': signature.bytes.hex(), 'verifies': verdict,
			'reserialized': transaction.serialize().hex() == case['tx']}
	except Exception as ex:  # pylint: disable=broad-except
		return {'error': f'crash:{type(ex).__name__}'}


def seed_of(case):
	if case['net'] == 'sym' and case['network'].startswith('private-'):
		return PRIVATE_SEED      # what the facade was GIVEN, not what it holds
	return facade_of(case['net'], case['network']).network.generation_hash_seed.bytes if case['net'] == 'sym' else b''


def model_sign(cases):
	first = []
	for case in cases:
		if case['net'] == 'sym':
			first.append(f'payload sym {seed_of(case).hex()} {case["tx"]}')
		else:
			first.append(f'payload nem {case["tx"]}')
		first.append(f'pub {case["net"]} {case["secret"]}')
	answers = edmodel.query(first)
	payloads = [answer[3:] if answer.startswith('ok:') else answer for answer in answers[0::2]]
	publics = answers[1::2]
	second = []
	for case, payload in zip(cases, payloads):
		second.append(f'sign {case["net"]} {case["secret"]} {payload or "-"}' if ':' not in payload else 'hash sha256 -')
	signatures = edmodel.query(second)
	third = [
		f'verify {case["net"]} {public} {payload or "-"} {signature}' if ':' not in payload else 'hash sha256 -'
		for case, payload, public, signature in zip(cases, payloads, publics, signatures)]
	verdicts = edmodel.query(third)
	return [
		{'public': public, 'payload': payload, 'signature': signature, 'verifies': verdict, 'reserialized': True}
		for public, payload, signature, verdict in zip(publics, payloads, signatures, verdicts)]


def expected_payload(case):
	"""The documented signing payload, from the property text."""
	data = bytes.fromhex(case['tx'])
	if case['net'] == 'sym':
		transaction_type = int.from_bytes(data[110:112], 'little')
		covered = data[108:108 + 52] if transaction_type in SYM_AGGREGATE_TYPES else data[108:]
		return seed_of(case) + covered
	# NEM non-verifiable serialization: the verifiable one without signature_size/signature (68 bytes after the 48-byte head
	# ending with the signer key) and, for a multisig transaction (type 0x1004), without the trailing cosignature list
	body = data[116:]
	if int.from_bytes(data[0:4], 'little') == 0x1004:
		inner_size = int.from_bytes(body[12:16], 'little')
		body = body[:16 + inner_size]
	return data[:48] + body


def reference_sign(net, secret, payload):
	if net == 'sym':
		from cryptography.hazmat.primitives import serialization
		from cryptography.hazmat.primitives.asymmetric import ed25519
		key = ed25519.Ed25519PrivateKey.from_private_bytes(secret)
		public = key.public_key().public_bytes(serialization.Encoding.Raw, serialization.PublicFormat.Raw)
		return public, key.sign(payload)
	return edmodel.r_public(edmodel.keccak512, secret[::-1]), edmodel.r_sign(edmodel.keccak512, secret[::-1], payload)


def reference_verify(net, public, payload, signature):
	"""RFC 8032 verification with the network's hash (cryptography for SHA-512, the RFC sample code for Keccak-512)."""
	if net == 'sym':
		from cryptography.exceptions import InvalidSignature
		from cryptography.hazmat.primitives.asymmetric import ed25519
		try:
			ed25519.Ed25519PublicKey.from_public_bytes(public).verify(signature, payload)
			return True
		except InvalidSignature:
			return False
	return edmodel.r_verify(edmodel.keccak512, public, payload, signature)


def oracle_sign(case, out):
	if 'error' in out:
		return f'signing raised {out["error"]}'
	payload = expected_payload(case)
	if out['payload'] != payload.hex():
		return f'signing payload is not the documented one (seed || body window resp. non-verifiable serialization): {out["payload"][:80]}...'
	public, signature = reference_sign(case['net'], bytes.fromhex(case['secret']), payload)
	if out['public'] != public.hex():
		return f'public key {out["public"]} differs from the reference {public.hex()}'
	if out['signature'] != signature.hex():
		return f'signature differs from the deterministic reference signature of the documented payload: {out["signature"]} vs {signature.hex()}'
	if out['verifies'] != 'T':
		return f'the produced signature does not verify under the signer\'s public key ({out["verifies"]})'
	if not reference_verify(case['net'], public, payload, bytes.fromhex(out['signature'])):
		return 'the produced signature does not verify under the reference verifier'
	return None


# ---------------------------------------------------------------------------------------------------------------------
# verify under perturbation

SMALL_ORDER_KEYS = [
	'0100000000000000000000000000000000000000000000000000000000000000',
	'ecffffffffffffffffffffffffffffffffffffffffffffffffffffffffffff7f',
	'0000000000000000000000000000000000000000000000000000000000000080',
	'26e8958fc2b227b045c3f489f2ef98f0d5dfac05d3c63339b13802886d53fc05',
	'c7176a703d4dd84fba3c0b760d10670f2a2053fa2c39ccc64ec7fd7792ac037a',
	'eeffffffffffffffffffffffffffffffffffffffffffffffffffffffffffff7f',    # y = p + 1: non-canonical encoding of the neutral element
	'edffffffffffffffffffffffffffffffffffffffffffffffffffffffffffff7f',    # y = p: non-canonical encoding of y = 0
]


def flip(data, bit):
	data = bytearray(data)
	data[bit // 8] ^= 1 << (bit % 8)
	return bytes(data)


def gen_verify_cases(rng, signed, count):
	"""signed: list of (case, implementation output).  Perturbations of payload / signature / key + the special refusals."""
	kinds = ['payload-bit'] * 5 + ['sigR-bit'] * 2 + ['sigS-bit'] * 3 + ['key-bit'] * 3 + [
		'unchanged', 'S+L', 'S=0', 'zero-key', 'small-order-key', 'sig-for-small-order-key', 'noncanonical-R', 'tx-bit', 'tx-bit', 'tx-bit']
	cases = []
	usable = [(case, out) for case, out in signed if 'error' not in out]
	if not usable:
		return cases
	while len(cases) < count:
		case, out = usable[len(cases) % len(usable)]
		what = kinds[(len(cases) // len(usable) + len(cases)) % len(kinds)] if len(cases) >= len(kinds) else kinds[len(cases)]
		public, payload, signature = bytes.fromhex(out['public']), bytes.fromhex(out['payload']), bytes.fromhex(out['signature'])
		entry = {'kind': 'verify', 'net': case['net'], 'network': case['network'], 'what': what}
		if what != 'tx-bit':
			# the same verdict is required whichever of the two key / signature classes (CryptoTypes or generated codec) carries the bytes
			entry['keytype'] = 'crypto' if (len(cases) // len(kinds) + len(cases)) % 2 == 0 else 'codec'
		if what == 'payload-bit':
			payload = flip(payload, rng.randrange(8 * len(payload)))
		elif what == 'sigR-bit':
			signature = flip(signature, rng.randrange(256))
		elif what == 'sigS-bit':
			signature = flip(signature, 256 + rng.randrange(256))
		elif what == 'key-bit':
			public = flip(public, rng.randrange(256))
		elif what == 'S+L':
			s_value = int.from_bytes(signature[32:], 'little') + L * rng.choice([1, 1, 2, 15])
			if s_value >= 2 ** 256:
				s_value = int.from_bytes(signature[32:], 'little') + L
			signature = signature[:32] + s_value.to_bytes(32, 'little')
		elif what == 'S=0':
			signature = signature[:32] + bytes(32)
		elif what == 'zero-key':
			public = bytes(32)
		elif what == 'small-order-key':
			public = bytes.fromhex(rng.choice(SMALL_ORDER_KEYS))
		elif what == 'sig-for-small-order-key':
			# for the neutral element as key, (encode([s]B), s) satisfies the equation for every message
			# ... also through its non-canonical spellings (y = p + 1; x = 0 with the sign bit set), which permissive decoders reduce
			public = bytes.fromhex(rng.choice([SMALL_ORDER_KEYS[0], SMALL_ORDER_KEYS[0], SMALL_ORDER_KEYS[5], '01' + '00' * 30 + '80']))
			s_value = rng.randrange(1, L)
			signature = edmodel.r_point_compress(edmodel.r_point_mul(s_value, edmodel.RG)) + s_value.to_bytes(32, 'little')
		elif what == 'noncanonical-R':
			# R replaced by a non-canonical encoding (y + p) of a small-y point where one exists; otherwise top bit games
			signature = (int.from_bytes(signature[:32], 'little') ^ (1 << 255)).to_bytes(32, 'little') + signature[32:]
		elif what == 'tx-bit':
			entry.update(tx_bit_case(rng, case, out))
		if what != 'tx-bit':
			entry.update({'public': public.hex(), 'payload': payload.hex(), 'signature': signature.hex()})
		cases.append(entry)
	return cases


def systematic_signature_cases(signed):
	"""For EVERY valid signature of the stream: each bit of the top byte of S and of R, S + 2^255, S + 2^252, S + k*L (k = 1..8, all
	fit 32 bytes), and S replaced by L - 1, L, L + 1.  The property refuses every one of them on both networks."""
	cases = []
	for case, out in signed:
		if 'error' in out or out.get('verifies') != 'T':
			continue
		public, payload, signature = out['public'], out['payload'], bytes.fromhex(out['signature'])
		s_value = int.from_bytes(signature[32:], 'little')
		variants = [('sigS-topbit', flip(signature, 504 + bit)) for bit in range(8)]
		variants += [('sigR-topbit', flip(signature, 248 + bit)) for bit in range(8)]
		for what, value in [('S+2^255', s_value + 2 ** 255), ('S+2^252', s_value + 2 ** 252)] \
			+ [('S+kL', s_value + k * L) for k in range(1, 9)] + [('S=L-1', L - 1), ('S=L', L), ('S=L+1', L + 1)]:
			if value < 2 ** 256 and value != s_value:
				variants.append((what, signature[:32] + value.to_bytes(32, 'little')))
		for what, changed in variants:
			cases.append({
				'kind': 'verify', 'net': case['net'], 'network': case['network'], 'what': what, 'keytype': 'codec' if len(cases) % 3 == 2 else 'crypto',
				'public': public, 'payload': payload, 'signature': changed.hex()})
	return cases


def systematic_head_bit_cases(signed):
	"""For EVERY signed transaction of the stream: each bit of its version and network members (and, for Symbol aggregates, which sign a
	52-byte head, each bit of the type member's low byte): covered bits whose change must make verification fail, whatever constants
	the transaction's class declares."""
	cases = []
	for case, out in signed:
		if 'error' in out or out.get('verifies') != 'T':
			continue
		data = bytearray.fromhex(case['tx'])
		sig_at, key_at = signature_offsets(case['net'])
		data[sig_at:sig_at + 64] = bytes.fromhex(out['signature'])
		data[key_at:key_at + 32] = bytes.fromhex(out['public'])
		# Symbol: version at 108, network at 109, type at 110..111; NEM: type 0..3, version byte 4, network byte 7
		offsets = [108, 109] if case['net'] == 'sym' else [4, 7]
		for offset in offsets:
			for bit in range(8):
				cases.append({
					'kind': 'verify', 'net': case['net'], 'network': case['network'], 'what': 'tx-bit', 'tx_kind': case['tx_kind'],
					'signed_tx': bytes(data).hex(), 'bit': 8 * offset + bit, 'original_payload': out['payload']})
	return cases


def signature_offsets(net):
	"""(signature offset, signer offset) in a serialized transaction."""
	return (8, 72) if net == 'sym' else (52, 16)


def tx_bit_case(rng, case, out):
	"""A signed transaction with one flipped bit anywhere; the implementation re-parses it and verifies it through the facade."""
	data = bytearray.fromhex(case['tx'])
	sig_at, key_at = signature_offsets(case['net'])
	data[sig_at:sig_at + 64] = bytes.fromhex(out['signature'])
	data[key_at:key_at + 32] = bytes.fromhex(out['public'])
	# Flipped bits are confined to fixed-width fields and trailing data bytes: a flipped high bit in a 32-bit count / byte-size member
	# (aggregate payload_size, NEM mosaics_count ...) makes the SDK deserializer build millions of empty elements from the exhausted
	# buffer (tens of GB) instead of rejecting -- a decoding matter (C01/C02), not a signing one, and it would kill the run.
	size = len(data)
	regions = [(0, min(size, 128))]
	if case['net'] == 'sym':
		if int.from_bytes(data[110:112], 'little') in SYM_AGGREGATE_TYPES and size >= 160:
			regions.append((128, 160))
		if size >= 172 + 8:
			regions.append((max(size - 48, 172), size))
	elif case['tx_kind'] in ('multisig+cosignatures', 'cosignature') and size >= 128 + 40:
		regions.append((size - 32, size))
	low, high = rng.choice(regions)
	bit = rng.randrange(8 * low, 8 * high)
	return {'signed_tx': bytes(data).hex(), 'bit': bit, 'original_payload': out['payload']}


def impl_verify(case):
	from symbolchain.CryptoTypes import Signature
	facade = facade_of(case['net'], case['network'])
	if case['what'] == 'tx-bit':
		try:
			transaction = facade.transaction_factory.deserialize(flip(bytes.fromhex(case['signed_tx']), case['bit']))
			reserialized = transaction.serialize()
		except Exception as ex:  # pylint: disable=broad-except
			return f'unparsable:{type(ex).__name__}'
		if reserialized != flip(bytes.fromhex(case['signed_tx']), case['bit']):
			return 'unparsable:not-canonical'
		return outcome(lambda: facade.verify_transaction(transaction, Signature(transaction.signature.bytes)))
	keytype = case.get('keytype', 'crypto')
	return outcome(lambda: facade.Verifier(key_object(case['net'], keytype, bytes.fromhex(case['public']))).verify(
		bytes.fromhex(case['payload']), signature_object(case['net'], keytype, bytes.fromhex(case['signature']))))


def model_verify(cases):
	first = []
	for case in cases:
		if case['what'] == 'tx-bit':
			data = flip(bytes.fromhex(case['signed_tx']), case['bit'])
			if case['net'] == 'sym':
				first.append(f'payload sym {seed_of(case).hex()} {data.hex()}')
			else:
				first.append(f'payload nem {data.hex()}')
	payloads = iter(edmodel.query(first))
	requests = []
	for case in cases:
		if case['what'] == 'tx-bit':
			data = flip(bytes.fromhex(case['signed_tx']), case['bit'])
			sig_at, key_at = signature_offsets(case['net'])
			payload = next(payloads)
			payload = payload[3:] if payload.startswith('ok:') else payload
			requests.append(f'verify {case["net"]} {data[key_at:key_at + 32].hex()} {payload or "-"} {data[sig_at:sig_at + 64].hex()}')
		else:
			requests.append(f'verify {case["net"]} {case["public"]} {case["payload"] or "-"} {case["signature"]}')
	return edmodel.query(requests)


def covered_bit(case):
	"""Whether the flipped bit of a tx-bit case lies in the data the property says is covered (body window, signature, signer key)."""
	data = bytes.fromhex(case['signed_tx'])
	offset = case['bit'] // 8
	sig_at, key_at = signature_offsets(case['net'])
	if sig_at <= offset < sig_at + 64 or key_at <= offset < key_at + 32:
		return True
	if case['net'] == 'sym':
		aggregate = int.from_bytes(data[110:112], 'little') in SYM_AGGREGATE_TYPES
		flipped_type = int.from_bytes(flip(data, case['bit'])[110:112], 'little') in SYM_AGGREGATE_TYPES
		if aggregate != flipped_type:
			return True
		return 108 <= offset < (160 if aggregate else len(data))
	if offset < 48:
		return True
	if 48 <= offset < 116:
		return False
	if int.from_bytes(data[0:4], 'little') == 0x1004:
		return offset < 132 + int.from_bytes(data[128:132], 'little') or 128 <= offset < 132
	return True


def oracle_verify(case, out):
	what = case['what']
	if what == 'unchanged':
		return None if out == 'T' else f'an untouched valid signature is not accepted ({out})'
	if what in ('payload-bit', 'sigR-bit', 'sigS-bit', 'key-bit', 'sigS-topbit', 'sigR-topbit'):
		return None if out in ('F', 'reject') else f'verification after changing one bit ({what}) gives {out}'
	if what in ('S+2^255', 'S+2^252', 'S+kL', 'S=L', 'S=L+1'):
		return None if out in ('F', 'reject') else f'a signature whose scalar part is not reduced ({what}) is not refused ({out})'
	if what == 'S=L-1':
		return None if out in ('F', 'reject') else f'a signature with the scalar part replaced by L - 1 still verifies ({out})'
	if what in ('S+L', 'S=0'):
		return None if out in ('F', 'reject') else f'a signature whose scalar part is {"not reduced" if what == "S+L" else "zero"} is not refused ({out})'
	if what == 'zero-key':
		return None if out in ('F', 'reject') else f'the all-zero public key is not refused ({out})'
	if what == 'tx-bit':
		if out.startswith('unparsable'):
			return None
		if covered_bit(case):
			return None if out in ('F', 'reject') else f'a transaction with a flipped covered bit (bit {case["bit"]}) still verifies ({out})'
		return None if out == 'T' else f'a flipped bit outside the signed window (bit {case["bit"]}) changes the verdict to {out}'
	return None    # small-order / non-canonical corners: the property is silent; model and implementation must still agree


# ---------------------------------------------------------------------------------------------------------------------
# cosignatures and voting keys (Symbol)

def gen_cosign_cases(rng, signed, count):
	cases = []
	aggregates = [(case, out) for case, out in signed if case['net'] == 'sym' and case['tx_kind'].startswith('aggregate') and 'error' not in out]
	for index in range(count):
		if not aggregates:
			break
		case, out = aggregates[index % len(aggregates)]
		data = bytearray.fromhex(case['tx'])
		data[8:72] = bytes.fromhex(out['signature'])
		cases.append({
			'kind': 'cosign', 'net': 'sym', 'network': case['network'], 'secret': rand_bytes(rng, 32).hex(), 'tx': bytes(data).hex(),
			'detached': index % 2 == 1})
	return cases


def impl_cosign(case):
	from symbolchain.CryptoTypes import PrivateKey
	facade = facade_of('sym', case['network'])
	try:
		transaction = facade.transaction_factory.deserialize(bytes.fromhex(case['tx']))
		key_pair = facade.KeyPair(PrivateKey(bytes.fromhex(case['secret'])))
		cosignature = facade.cosign_transaction(key_pair, transaction, case['detached'])
		parsed = type(cosignature).deserialize(cosignature.serialize())    # as a receiver sees it: signer and signature are codec objects
		transaction_hash = facade.hash_transaction(transaction)
		verdict = outcome(lambda: facade.Verifier(parsed.signer_public_key).verify(transaction_hash.bytes, parsed.signature))
		return {'hash': transaction_hash.bytes.hex(), 'cosignature': cosignature.serialize().hex(), 'verifies': verdict}
	except Exception as ex:  # pylint: disable=broad-except
		return {'error': f'crash:{type(ex).__name__}'}


def oracle_cosign(case, out):
	if 'error' in out:
		return f'cosigning raised {out["error"]}'
	data, transaction_hash = bytes.fromhex(out['cosignature']), bytes.fromhex(out['hash'])
	public, signature = reference_sign('sym', bytes.fromhex(case['secret']), transaction_hash)
	expected = (0).to_bytes(8, 'little') + public + signature + (transaction_hash if case['detached'] else b'')
	if out['verifies'] != 'T':
		return f'the parsed cosignature does not verify over the transaction hash under its signer key ({out["verifies"]})'
	if data != expected:
		return 'cosignature is not version 0 || signer key || deterministic signature over the 32 hash bytes' + (' || parent hash' if case['detached'] else '')
	return None if reference_verify('sym', public, transaction_hash, data[40:104]) else 'cosignature does not verify over the transaction hash'


def gen_voting_cases(rng, count):
	cases = []
	for index in range(count):
		start = rng.choice([0, 1, 7, rng.randrange(2 ** 20), 2 ** 32 - 2])
		length = rng.choice([1, 1, 2, 3, 5]) if index else 4
		cases.append({
			'kind': 'voting', 'root': rand_bytes(rng, 32).hex(), 'start': start, 'end': start + length - 1,
			'children': [rand_bytes(rng, 32).hex() for _ in range(length)]})
	return cases


def impl_voting(case):
	from symbolchain.CryptoTypes import PrivateKey
	from symbolchain.symbol.KeyPair import KeyPair
	from symbolchain.symbol.VotingKeysGenerator import VotingKeysGenerator
	children = [PrivateKey(bytes.fromhex(child)) for child in case['children']]
	try:
		generator = VotingKeysGenerator(KeyPair(PrivateKey(bytes.fromhex(case['root']))), lambda: children.pop(0))
		return bytes(generator.generate(case['start'], case['end'])).hex()
	except Exception as ex:  # pylint: disable=broad-except
		return f'crash:{type(ex).__name__}'


def oracle_voting(case, out):
	if out.startswith('crash'):
		return f'generate raised {out}'
	data = bytes.fromhex(out)
	root_public, _ = reference_sign('sym', bytes.fromhex(case['root']), b'')
	le64 = lambda value: value.to_bytes(8, 'little')  # noqa: E731
	header = le64(case['start']) + le64(case['end']) + le64(2 ** 64 - 1) + le64(2 ** 64 - 1) + root_public + le64(case['start']) + le64(case['end'])
	if data[:len(header)] != header:
		return 'voting key tree header is not start, end, two all-ones words, root public key, start, end'
	count = case['end'] - case['start'] + 1
	if len(data) != len(header) + 96 * count:
		return f'voting key tree has {len(data)} bytes, expected {len(header) + 96 * count}'
	for index in range(count):
		entry = data[len(header) + 96 * index:len(header) + 96 * (index + 1)]
		epoch = case['end'] - index
		child_public, _ = reference_sign('sym', entry[:32], b'')
		if entry[:32].hex() != case['children'][index]:
			return f'entry {index} does not hold the generated child private key'
		_, certificate = reference_sign('sym', bytes.fromhex(case['root']), child_public + le64(epoch))
		if entry[32:] != certificate or not reference_verify('sym', root_public, child_public + le64(epoch), entry[32:]):
			return f'certificate {index} is not the root signature over child public key || LE64({epoch}) (epochs descending from the end)'
	return None


# ---------------------------------------------------------------------------------------------------------------------
# the all-zero public key through every verification entry point

# the eight points of order 1, 2, 4, 4, 8, 8, 8, 8 (canonical encodings).  For a key of small order and S = 0 the verification
# equation degenerates to R = -[h]A, so for every message one of these R makes `R || 0` "valid" for a verifier that lets the key in.
SMALL_ORDER_POINTS = [
	'0100000000000000000000000000000000000000000000000000000000000000',
	'ecffffffffffffffffffffffffffffffffffffffffffffffffffffffffffff7f',
	'0000000000000000000000000000000000000000000000000000000000000000',
	'0000000000000000000000000000000000000000000000000000000000000080',
	'26e8958fc2b227b045c3f489f2ef98f0d5dfac05d3c63339b13802886d53fc05',
	'26e8958fc2b227b045c3f489f2ef98f0d5dfac05d3c63339b13802886d53fc85',
	'c7176a703d4dd84fba3c0b760d10670f2a2053fa2c39ccc64ec7fd7792ac037a',
	'c7176a703d4dd84fba3c0b760d10670f2a2053fa2c39ccc64ec7fd7792ac03fa',
]

NETWORK_COMBINATIONS = [('sym', 'mainnet'), ('sym', 'testnet'), ('nem', 'mainnet'), ('nem', 'testnet')]


def zero_signer(net, data):
	"""The serialized transaction with the signer public key replaced by 32 zero bytes."""
	_, key_at = signature_offsets(net)
	return data[:key_at] + bytes(32) + data[key_at + 32:]


def simple_transfer_descriptor(net, fields, signer):
	descriptor = {
		'type': 'transfer_transaction_v1', 'signer_public_key': signer, 'fee': fields['fee'], 'deadline': fields['deadline'],
		'recipient_address': fields['recipient']}
	if net == 'nem':
		descriptor.update({'timestamp': fields['timestamp'], 'amount': fields['amount']})
	return descriptor


def signer_in_form(form, data):
	"""The ways a descriptor may name the signer: CryptoTypes.PublicKey, hex string, raw bytes."""
	from symbolchain.CryptoTypes import PublicKey
	return {'crypto': PublicKey(data), 'hex': data.hex().upper(), 'bytes': data}[form]


def gen_zero_key_cases(rng, rounds):
	"""Per network combination: Verifier built from the zero key as CryptoTypes.PublicKey / codec PublicKey(bytes) / codec PublicKey(),
	facade.verify_transaction on created and on deserialized transactions whose signer is all zero, (Symbol) a parsed cosignature with a
	zero signer; each with `R || 0` for the eight small-order R (R = 0 gives the all-zero signature) and with an honest signer's signature."""
	cases = []
	for round_index in range(rounds):
		for net, network in NETWORK_COMBINATIONS:
			facade = facade_of(net, network)
			secret = rand_bytes(rng, 32)
			transactions = build_transactions(rng, net, network, secret)
			rng.shuffle(transactions)
			special = [item for item in transactions if item[0].startswith(('aggregate', 'multisig'))][:1]
			chosen = transactions[:1] + [item for item in special if item is not transactions[0]]
			fields = {
				'fee': rng.randrange(2 ** 30), 'deadline': rng.randrange(1, 2 ** 31), 'timestamp': rng.randrange(2 ** 31), 'amount': rng.randrange(2 ** 40),
				'recipient': str(facade.network.public_key_to_address(facade.KeyPair(_private_key(rand_bytes(rng, 32))).public_key))}
			form = ['crypto', 'hex', 'bytes'][round_index % 3]
			created = facade.transaction_factory.create(simple_transfer_descriptor(net, fields, signer_in_form(form, bytes(32)))).serialize()
			targets = [('verifier:crypto', {'payload': rand_bytes(rng, rng.choice([0, 1, 32, 100])).hex()})]
			targets.append(('verifier:codec', {'payload': rand_bytes(rng, rng.choice([0, 1, 32, 100])).hex()}))
			targets.append(('verifier:codec-default', {'payload': rand_bytes(rng, rng.choice([0, 1, 32, 100])).hex()}))
			targets.append(('facade:created', {'tx': created.hex(), 'descriptor': fields, 'signer_form': form}))
			for kind, data in chosen:
				targets.append(('facade:deserialized', {'tx': zero_signer(net, data).hex(), 'tx_kind': kind, 'own_signature': rng.randrange(2) == 1}))
			if net == 'sym':
				targets.append(('cosignature:parsed', {'hash': rand_bytes(rng, 32).hex(), 'detached': rng.randrange(2) == 1}))
			for entry, extra in targets:
				base = {'kind': 'zerokey', 'net': net, 'network': network, 'entry': entry, **extra}
				message = zero_key_message(base)
				_, honest = reference_sign(net, secret, message)
				signatures = [(f'R{index}||0', bytes.fromhex(encoded) + bytes(32)) for index, encoded in enumerate(SMALL_ORDER_POINTS)]
				signatures.append(('honest-signer', honest))
				for what, signature in signatures:
					cases.append({**base, 'what': what, 'signature': signature.hex()})
	return cases


def _private_key(data):
	from symbolchain.CryptoTypes import PrivateKey
	return PrivateKey(data)


def zero_key_message(case):
	"""The bytes the property says the signature is checked against, for each entry point (oracle / model side)."""
	if 'tx' in case:
		return expected_payload(case)
	return bytes.fromhex(case['hash'] if 'hash' in case else case['payload'])


def impl_zero_key(case):
	from symbolchain.CryptoTypes import Signature
	net, entry = case['net'], case['entry']
	facade = facade_of(net, case['network'])
	codec = codec_of(net)
	signature = bytes.fromhex(case['signature'])
	try:
		if entry.startswith('verifier:'):
			keytype = entry.split(':')[1]
			return outcome(lambda: facade.Verifier(key_object(net, keytype, bytes(32))).verify(
				bytes.fromhex(case['payload']), signature_object(net, keytype, signature)))
		if entry == 'facade:created':
			transaction = facade.transaction_factory.create(
				simple_transfer_descriptor(net, case['descriptor'], signer_in_form(case['signer_form'], bytes(32))))
			if transaction.serialize().hex() != case['tx']:
				return 'unparsable:created-differs'
			return outcome(lambda: facade.verify_transaction(transaction, Signature(signature)))
		if entry == 'facade:deserialized':
			data = bytearray.fromhex(case['tx'])
			if case['own_signature']:    # the forged signature travels inside the transaction and is handed over as the codec Signature
				sig_at, _ = signature_offsets(net)
				data[sig_at:sig_at + 64] = signature
			transaction = facade.transaction_factory.deserialize(bytes(data))
			if transaction.signer_public_key.bytes != bytes(32):
				return 'unparsable:signer-not-zero'
			handed = transaction.signature if case['own_signature'] else Signature(signature)
			return outcome(lambda: facade.verify_transaction(transaction, handed))
		# a cosignature as it arrives from the wire: signer and signature are codec objects
		cosignature = codec.DetachedCosignature() if case['detached'] else codec.Cosignature()
		cosignature.version = 0
		cosignature.signer_public_key = codec.PublicKey(bytes(32))
		cosignature.signature = codec.Signature(signature)
		if case['detached']:
			cosignature.parent_hash = codec.Hash256(bytes.fromhex(case['hash']))
		parsed = type(cosignature).deserialize(cosignature.serialize())
		return outcome(lambda: facade.Verifier(parsed.signer_public_key).verify(bytes.fromhex(case['hash']), parsed.signature))
	except Exception as ex:  # pylint: disable=broad-except
		return f'crash:{type(ex).__name__}'


def model_zero_key(cases):
	first = []
	for case in cases:
		if 'tx' in case:
			first.append(f'payload sym {seed_of(case).hex()} {case["tx"]}' if case['net'] == 'sym' else f'payload nem {case["tx"]}')
	payloads = iter(edmodel.query(first))
	requests = []
	for case in cases:
		if 'tx' in case:
			payload = next(payloads)
			payload = payload[3:] if payload.startswith('ok:') else payload
		else:
			payload = case['hash'] if 'hash' in case else case['payload']
		requests.append(f'verify {case["net"]} {bytes(32).hex()} {payload or "-"} {case["signature"]}')
	return edmodel.query(requests)


def oracle_zero_key(case, out):
	"""'... and the all-zero public key are refused': an error or False, never True -- whatever the signature and the entry point."""
	if out.startswith('unparsable'):
		return f'the zero-signer transaction could not be set up ({out})'
	if out == 'T':
		return f'the all-zero public key is not refused through {case["entry"]}: signature {case["what"]} = {case["signature"]} is accepted'
	return None


# ---------------------------------------------------------------------------------------------------------------------
# sessions: ONE key pair / account / verifier object used several times

def gen_sign_sessions(rng, count):
	"""One KeyPair (or facade account) object signs 3-5 payloads / transactions / hashes in a row, the first one again at the end and
	sometimes twice in a row.  Every signature must be the deterministic reference signature, whatever was signed before."""
	vias = {'sym': ['facade', 'keypair', 'account', 'cosign-hash'], 'nem': ['facade', 'keypair', 'account']}
	cases = []
	for index in range(count):
		net = 'sym' if index % 2 == 0 else 'nem'
		network = rng.choice(['mainnet', 'testnet'])
		secret = rand_bytes(rng, 32)
		via = vias[net][(index // 2) % len(vias[net])]
		wanted = rng.randrange(2, 4)
		if via in ('facade', 'account'):
			transactions = build_transactions(rng, net, network, secret)
			rng.shuffle(transactions)
			chosen = [data.hex() for _, data in transactions[:wanted]]
		elif via == 'keypair':
			chosen = [rand_bytes(rng, rng.choice([0, 1, 31, 32, 39, 40, 41, 72, 104, 200, 300])).hex() for _ in range(wanted)]
		else:
			chosen = [rand_bytes(rng, 32).hex() for _ in range(wanted)]
		items = chosen[:1] + (chosen[:1] if rng.randrange(2) else []) + chosen[1:] + chosen[:1]
		case = {'kind': 'sign-session', 'net': net, 'network': network, 'secret': secret.hex(), 'via': via, 'items': items}
		# where the 32 secret bytes live while the key pair is in use: the PrivateKey handed to KeyPair / create_account may be backed by a
		# caller-owned mutable buffer, which the caller wipes or loads the next key into once the key pair exists (before item `at`)
		mode = KEY_BUFFER_MODES[(index // 2) % len(KEY_BUFFER_MODES)]
		if mode != 'bytes':
			case['key_buffer'] = {'mode': mode, 'at': rng.randrange(2), 'next': rand_bytes(rng, 32).hex()}
		cases.append(case)
	return cases


KEY_BUFFER_MODES = ['bytes', 'bytearray-wiped', 'bytearray-reused', 'bytearray-kept']


def touch_key_buffer(facade, buffers, key_buffer):
	"""What the owner of the buffers does with them after the key pair was made: zeroise, or read the next key into them (and use it)."""
	from symbolchain.CryptoTypes import PrivateKey
	for buffer in buffers:
		if key_buffer['mode'] == 'bytearray-wiped':
			buffer[:] = bytes(len(buffer))
		elif key_buffer['mode'] == 'bytearray-reused':
			buffer[:] = bytes.fromhex(key_buffer['next'])
			facade.KeyPair(PrivateKey(buffer)).sign(b'next key in use')


def impl_sign_session(case):
	from symbolchain.CryptoTypes import Hash256, PrivateKey, Signature
	net, via = case['net'], case['via']
	facade = facade_of(net, case['network'])
	try:
		key_buffer = case.get('key_buffer')
		buffers = [bytearray.fromhex(case['secret']) if key_buffer else bytes.fromhex(case['secret']) for _ in range(2)]
		key_pair = facade.KeyPair(PrivateKey(buffers[0]))
		account = facade.create_account(PrivateKey(buffers[1]))
		signatures, verdicts = [], []
		for index, item in enumerate(case['items']):
			data = bytes.fromhex(item)
			if key_buffer and index == key_buffer['at']:
				touch_key_buffer(facade, buffers, key_buffer)
			if via == 'keypair':
				signature = key_pair.sign(data)
				verdicts.append(outcome(lambda: facade.Verifier(key_pair.public_key).verify(data, signature)))   # pylint: disable=cell-var-from-loop
			elif via in ('facade', 'account'):
				transaction = facade.transaction_factory.deserialize(data)
				signature = facade.sign_transaction(key_pair, transaction) if via == 'facade' else account.sign_transaction(transaction)
				verdicts.append(outcome(lambda: facade.verify_transaction(transaction, signature)))   # pylint: disable=cell-var-from-loop
			else:
				cosignature = account.cosign_transaction_hash(Hash256(data), index % 2 == 1)
				signature = Signature(cosignature.signature.bytes)
				verdicts.append(outcome(lambda: facade.Verifier(cosignature.signer_public_key).verify(data, cosignature.signature)))   # pylint: disable=cell-var-from-loop
			signatures.append(signature.bytes.hex())
		public = (key_pair if via in ('keypair', 'facade') else account).public_key.bytes.hex()
		return {'public': public, 'signatures': signatures, 'verifies': verdicts}
	except Exception as ex:  # pylint: disable=broad-except
		return {'error': f'crash:{type(ex).__name__}'}


def session_message(case, item):
	"""The bytes the property says are signed for one item of a session (oracle side)."""
	if case['via'] in ('facade', 'account'):
		return expected_payload({'net': case['net'], 'network': case['network'], 'tx': item})
	return bytes.fromhex(item)


def model_sign_sessions(cases):
	first = []
	for case in cases:
		first.append(f'pub {case["net"]} {case["secret"]}')
		if case['via'] in ('facade', 'account'):
			first += [f'payload sym {seed_of(case).hex()} {item}' if case['net'] == 'sym' else f'payload nem {item}' for item in case['items']]
	answers = iter(edmodel.query(first))
	publics, messages, owners = [], [], []
	for case in cases:
		publics.append(next(answers))
		for item in case['items']:
			if case['via'] in ('facade', 'account'):
				answer = next(answers)
				messages.append(answer[3:] if answer.startswith('ok:') else answer)
			else:
				messages.append(item)
			owners.append((case, publics[-1]))
	signatures = edmodel.query([
		f'sign {case["net"]} {case["secret"]} {message or "-"}' if ':' not in message else 'hash sha256 -' for (case, _), message in zip(owners, messages)])
	verdicts = edmodel.query([
		f'verify {case["net"]} {public} {message or "-"} {signature}' if ':' not in message else 'hash sha256 -'
		for (case, public), message, signature in zip(owners, messages, signatures)])
	results, position = [], 0
	for case, public in zip(cases, publics):
		size = len(case['items'])
		results.append({'public': public, 'signatures': signatures[position:position + size], 'verifies': verdicts[position:position + size]})
		position += size
	return results


def oracle_sign_session(case, out):
	if 'error' in out:
		return f'a signing session raised {out["error"]}'
	secret = bytes.fromhex(case['secret'])
	seen = {}
	for index, item in enumerate(case['items']):
		message = session_message(case, item)
		public, expected = reference_sign(case['net'], secret, message)
		where = f'signature #{index + 1} of {len(case["items"])} produced by one {case["via"]} object'
		if 'key_buffer' in case and index >= case['key_buffer']['at']:
			where += f' (made from a PrivateKey over a caller-owned bytearray that was {case["key_buffer"]["mode"][10:]} before signature #{case["key_buffer"]["at"] + 1})'
		if out['public'] != public.hex():
			return f'public key {out["public"]} differs from the reference {public.hex()}'
		if out['signatures'][index] != expected.hex():
			return f'{where} is not the deterministic reference signature of the documented payload: {out["signatures"][index]} vs {expected.hex()}'
		if seen.setdefault(item, out['signatures'][index]) != out['signatures'][index]:
			return f'{where}: signing the same data twice gives two different signatures'
		if out['verifies'][index] != 'T':
			return f'{where} does not verify under the signer\'s public key ({out["verifies"][index]})'
		if not reference_verify(case['net'], public, message, bytes.fromhex(out['signatures'][index])):
			return f'{where} does not verify under the reference verifier'
	return None


def gen_verify_sessions(rng, signed, count):
	"""One Verifier object checks a sequence of good and bad (payload, signature) pairs; every verdict must be the one a fresh verifier gives."""
	cases = []
	usable = [(case, out) for case, out in signed if 'error' not in out and out.get('verifies') == 'T']
	for index in range(count):
		if not usable:
			break
		case, out = usable[(index * 7) % len(usable)]
		net, secret = case['net'], bytes.fromhex(case['secret'])
		payload, signature = bytes.fromhex(out['payload']), bytes.fromhex(out['signature'])
		other = rand_bytes(rng, rng.choice([0, 1, 40, 200]))
		_, other_signature = reference_sign(net, secret, other)
		pool = [
			('valid', payload, signature), ('valid', other, other_signature),
			('payload-bit', flip(payload, rng.randrange(8 * len(payload))), signature),
			('sigS-bit', payload, flip(signature, 256 + rng.randrange(256))),
			('sigR-bit', payload, flip(signature, rng.randrange(256))),
			('S=0', payload, signature[:32] + bytes(32)),
			('swapped', other, signature), ('swapped', payload, other_signature)]
		steps = [pool[0]] + [rng.choice(pool) for _ in range(rng.randrange(2, 5))] + [pool[rng.randrange(2)]]
		cases.append({
			'kind': 'verify-session', 'net': net, 'network': case['network'], 'public': out['public'], 'keytype': ['crypto', 'codec'][index % 2],
			'steps': [{'what': what, 'payload': message.hex(), 'signature': value.hex()} for what, message, value in steps]})
	return cases


def impl_verify_session(case):
	facade = facade_of(case['net'], case['network'])
	try:
		verifier = facade.Verifier(key_object(case['net'], case['keytype'], bytes.fromhex(case['public'])))
	except Exception as ex:  # pylint: disable=broad-except
		return [f'crash:{type(ex).__name__}'] * len(case['steps'])
	return [
		outcome(lambda: verifier.verify(bytes.fromhex(step['payload']), signature_object(case['net'], case['keytype'], bytes.fromhex(step['signature']))))  # pylint: disable=cell-var-from-loop
		for step in case['steps']]


def model_verify_sessions(cases):
	answers = iter(edmodel.query([
		f'verify {case["net"]} {case["public"]} {step["payload"] or "-"} {step["signature"]}' for case in cases for step in case['steps']]))
	return [[next(answers) for _ in case['steps']] for case in cases]


def oracle_verify_session(case, out):
	for index, (step, verdict) in enumerate(zip(case['steps'], out)):
		where = f'step {index + 1} of {len(case["steps"])} on one Verifier object'
		if step['what'] == 'valid':
			if verdict != 'T':
				return f'{where}: a valid signature is not accepted ({verdict})'
			if not reference_verify(case['net'], bytes.fromhex(case['public']), bytes.fromhex(step['payload']), bytes.fromhex(step['signature'])):
				return f'{where}: generator error, the reference verifier refuses the "valid" pair'
		elif verdict not in ('F', 'reject'):
			return f'{where}: a signature with a changed or foreign payload / signature ({step["what"]}) gives {verdict}'
	return None


# ---------------------------------------------------------------------------------------------------------------------
# use, then assign a member in place, then use again -- on the SAME transaction object

UNTOUCHED_MEMBERS = ('type_', 'version')    # assigning these makes the object a different (ill-formed) kind of transaction


def settable_members(obj):
	return [
		name for name in dir(type(obj))
		if not name.startswith('_') and name not in UNTOUCHED_MEMBERS
		and isinstance(getattr(type(obj), name, None), property) and getattr(type(obj), name).fset is not None]


def assignable_members(obj, path=(), depth=0):
	"""[(path, class of value, current value)] of everything that can be assigned in a transaction object (nested structs, first array elements)."""
	import enum
	from symbolchain.BaseValue import BaseValue
	from symbolchain.ByteArray import ByteArray
	found = []
	for name in settable_members(obj):
		try:
			value = getattr(obj, name)
		except Exception:  # pylint: disable=broad-except
			continue
		here = path + (name,)
		if value is None or isinstance(value, bool):
			continue
		if isinstance(value, enum.Enum):
			found.append((here, 'enum', value))
		elif isinstance(value, BaseValue):
			found.append((here, 'base', value))
		elif isinstance(value, ByteArray):
			found.append((here, 'bytearray', value))
		elif isinstance(value, (bytes, bytearray, memoryview)):
			found.append((here, 'bytes', bytes(value)))
		elif isinstance(value, int):
			found.append((here, 'int', value))
		elif isinstance(value, list):
			if value:
				found.append((here, 'list', value))
				if depth < 3 and hasattr(value[0], 'serialize'):
					found += assignable_members(value[0], here + (0,), depth + 1)
		elif hasattr(value, 'serialize') and depth < 3:
			found += assignable_members(value, here, depth + 1)
	return found


def make_assignment(rng, path, klass, value):
	"""A replayable description of one in-place change of the member at `path`."""
	edit = {'path': list(path)}
	if klass == 'base':
		changed = value.value ^ (1 << rng.randrange(8 * value.size - 1))
		return {**edit, 'op': rng.choice(['base', 'base', 'base-inplace']), 'value': changed}
	if klass == 'int':
		return {**edit, 'op': 'int', 'value': value ^ 1}
	if klass == 'bytearray':
		return {**edit, 'op': 'bytearray', 'value': flip(value.bytes, rng.randrange(8 * len(value.bytes))).hex()}
	if klass == 'bytes':
		choices = [value + bytes([rng.randrange(256)])]
		if value:
			choices += [flip(value, rng.randrange(8 * len(value))), value[:-1]]
		return {**edit, 'op': 'bytes', 'value': rng.choice(choices).hex()}
	if klass == 'enum':
		others = [member.name for member in type(value) if member is not value]
		return {**edit, 'op': 'enum', 'value': rng.choice(others)} if others else None
	return {**edit, 'op': rng.choice(['pop', 'dup'])}


def apply_assignment(transaction, edit):
	"""Performs the change on the object: through the member's setter, or (pop / dup / base-inplace) inside the member's current value."""
	target = transaction
	for step in edit['path'][:-1]:
		target = target[step] if isinstance(step, int) else getattr(target, step)
	name = edit['path'][-1]
	old = getattr(target, name)
	operation = edit['op']
	if operation == 'base':
		setattr(target, name, type(old)(edit['value']))
	elif operation == 'base-inplace':
		old.value = edit['value']
	elif operation == 'int':
		setattr(target, name, edit['value'])
	elif operation == 'bytearray':
		setattr(target, name, type(old)(bytes.fromhex(edit['value'])))
	elif operation == 'bytes':
		setattr(target, name, bytes.fromhex(edit['value']))
	elif operation == 'enum':
		setattr(target, name, type(old)[edit['value']])
	elif operation == 'pop':
		old.pop()
	else:
		old.append(old[0])


USES_BEFORE = [['sign', 'verify'], ['hash'], ['verify'], ['payload'], ['sign', 'hash', 'verify'], [], ['hash', 'sign']]

NEM_MULTISIG_TYPE = 0x1004


def head_assignments(rng, net, transaction):
	"""In-place changes of the two head members that name the transaction's kind -- `version` (one bit) and `type_` (another member of
	the enumeration; for a Symbol aggregate every other time the other aggregate type).  Both are serialized inside the signed window
	(Symbol bytes 108 and 110..111, NEM bytes 0..3 and 4), so they are covered data like any other member, whatever constants the
	object's class declares.  NEM: the layout of the non-verifiable form follows the class of the object; only the multisig class has a
	layout of its own, so multisig objects keep their type and no other object is given the multisig type."""
	edits = [{'path': ['version'], 'op': 'int', 'value': transaction.version ^ (1 << rng.randrange(8))}]
	current = transaction.type_
	others = [member for member in type(current) if member is not current]
	if net == 'nem':
		if current.value == NEM_MULTISIG_TYPE:
			return edits
		others = [member for member in others if member.value != NEM_MULTISIG_TYPE]
	aggregates = [member for member in others if net == 'sym' and current.value in SYM_AGGREGATE_TYPES and member.value in SYM_AGGREGATE_TYPES]
	chosen = aggregates[0] if aggregates and rng.randrange(2) else rng.choice(others)
	edits.append({'path': ['type_'], 'op': 'enum', 'value': chosen.name})
	return edits


def gen_mutate_sessions(rng, rounds):
	"""Per network combination and transaction kind: use the object (hash / payload / sign / verify in several orders), assign ONE member in place
	(a fee-like top-level number, any other member incl. nested ones, the signature / a list), then verify the old signature, sign again, verify."""
	cases = []
	for _ in range(rounds):
		for net, network in NETWORK_COMBINATIONS:
			facade = facade_of(net, network)
			secret = rand_bytes(rng, 32)
			for tx_kind, data in build_transactions(rng, net, network, secret):
				members = assignable_members(facade.transaction_factory.deserialize(data))
				plain = [m for m in members if len(m[0]) == 1 and m[1] == 'base']
				loose = [m for m in members if m[0][0] in ('signature', 'cosignatures', 'transactions', 'inner_transaction', 'signer_public_key')]
				picks = [rng.choice(plain)] if plain else []
				picks.append(rng.choice(members))
				if loose:
					picks.append(rng.choice(loose))
				_, old_signature = reference_sign(net, secret, expected_payload({'net': net, 'network': network, 'tx': data.hex()}))
				edits = [make_assignment(rng, member_path, klass, value) for member_path, klass, value in picks]
				edits += head_assignments(rng, net, facade.transaction_factory.deserialize(data))
				for edit in edits:
					if edit is None:
						continue
					member_path = edit['path']
					cases.append({
						'kind': 'mutate-session', 'net': net, 'network': network, 'secret': secret.hex(), 'tx_kind': tx_kind, 'tx': data.hex(),
						'before': USES_BEFORE[len(cases) % len(USES_BEFORE)], 'edit': edit, 'old_signature': old_signature.hex(),
						'member': '.'.join(str(step) for step in member_path)})
	return cases


def impl_mutate_session(case):
	from symbolchain.CryptoTypes import PrivateKey, Signature
	net = case['net']
	facade = facade_of(net, case['network'])
	try:
		transaction = facade.transaction_factory.deserialize(bytes.fromhex(case['tx']))
		key_pair = facade.KeyPair(PrivateKey(bytes.fromhex(case['secret'])))
		old_signature = Signature(bytes.fromhex(case['old_signature']))
		used = {}
		for use in case['before']:
			if use == 'sign':
				used['signature'] = facade.sign_transaction(key_pair, transaction).bytes.hex()
			elif use == 'verify':
				used['verifies'] = outcome(lambda: facade.verify_transaction(transaction, old_signature))
			elif use == 'hash':
				used['hash'] = facade.hash_transaction(transaction).bytes.hex()
			else:
				used['payload'] = bytes(facade.extract_signing_payload(transaction)).hex()
		before = bytes(transaction.serialize())
		try:
			apply_assignment(transaction, case['edit'])
			after = bytes(transaction.serialize())
		except Exception as ex:  # pylint: disable=broad-except
			return {'error': f'unparsable:{type(ex).__name__}'}
		old_verifies = outcome(lambda: facade.verify_transaction(transaction, old_signature))
		payload = bytes(facade.extract_signing_payload(transaction))
		signature = facade.sign_transaction(key_pair, transaction)
		new_verifies = outcome(lambda: facade.verify_transaction(transaction, signature))
		return {
			'used': used, 'before': before.hex(), 'after': after.hex(), 'payload': payload.hex(), 'old_verifies': old_verifies,
			'signature': signature.bytes.hex(), 'new_verifies': new_verifies, 'still': bytes(transaction.serialize()).hex() == after.hex()}
	except Exception as ex:  # pylint: disable=broad-except
		return {'error': f'crash:{type(ex).__name__}'}


def model_mutate_sessions(cases, outs):
	"""The model cannot assign members of Python objects: it is given the bytes the object serializes to after the assignment."""
	live = [(case, out) for case, out in zip(cases, outs) if 'error' not in out]
	payloads = edmodel.query([
		f'payload sym {seed_of(case).hex()} {out["after"]}' if case['net'] == 'sym' else f'payload nem {out["after"]}' for case, out in live])
	payloads = [answer[3:] if answer.startswith('ok:') else answer for answer in payloads]
	signatures = edmodel.query([
		f'sign {case["net"]} {case["secret"]} {payload or "-"}' if ':' not in payload else 'hash sha256 -' for (case, _), payload in zip(live, payloads)])
	requests = []
	for (case, out), payload, signature in zip(live, payloads, signatures):
		_, key_at = signature_offsets(case['net'])
		public = out['after'][2 * key_at:2 * key_at + 64]
		for value in (case['old_signature'], signature):
			requests.append(f'verify {case["net"]} {public} {payload or "-"} {value}' if ':' not in payload and len(public) == 64 else 'hash sha256 -')
	verdicts = edmodel.query(requests)
	answers = iter(
		{'payload': payload, 'old_verifies': verdicts[2 * index], 'signature': signature, 'new_verifies': verdicts[2 * index + 1]}
		for index, (payload, signature) in enumerate(zip(payloads, signatures)))
	return [next(answers) if 'error' not in out else out for out in outs]


def oracle_mutate_session(case, out):
	# pylint: disable=too-many-return-statements,too-many-branches
	if 'error' in out:
		return None if out['error'].startswith('unparsable') else f'a use / assign / use sequence raised {out["error"]}'
	net, secret = case['net'], bytes.fromhex(case['secret'])
	context = {'net': net, 'network': case['network']}
	if out['before'] != case['tx'] or not out['still']:
		return None    # the object does not reproduce its bytes: a codec matter (C01/C02)
	what = f'after {"+".join(case["before"]) or "no use"} and then assigning {case["member"]} ({case["edit"]["op"]}) on the same {case["tx_kind"]} object'
	payload_before = expected_payload({**context, 'tx': out['before']})
	payload_after = expected_payload({**context, 'tx': out['after']})
	_, key_at = signature_offsets(net)
	key_changed = out['before'][2 * key_at:2 * key_at + 64] != out['after'][2 * key_at:2 * key_at + 64]
	covered = payload_before != payload_after
	used = out['used']
	if used.get('signature', case['old_signature']) != case['old_signature'] or used.get('verifies', 'T') != 'T' \
		or used.get('payload', payload_before.hex()) != payload_before.hex():
		return f'before any assignment the {case["tx_kind"]} object is not signed / verified with the documented payload: {used}'
	problems = []
	if out['payload'] != payload_after.hex():
		stale = ' (it is the payload of the transaction as it was BEFORE the assignment)' if out['payload'] == payload_before.hex() and covered else ''
		problems.append(f'the signing payload is not the documented payload of the transaction as it is now{stale}')
	if covered or key_changed:
		if out['old_verifies'] not in ('F', 'reject'):
			problems.append(f'covered data changed but the old signature still verifies ({out["old_verifies"]})')
	elif out['old_verifies'] != 'T':
		problems.append(f'only data outside the signed window changed but the old signature no longer verifies ({out["old_verifies"]})')
	public, expected = reference_sign(net, secret, payload_after)
	if out['signature'] != expected.hex():
		problems.append(f'signing again does not give the deterministic reference signature of the current payload: {out["signature"]} vs {expected.hex()}')
	elif not key_changed:
		if out['new_verifies'] != 'T':
			problems.append(f'the new signature does not verify ({out["new_verifies"]})')
		if not reference_verify(net, public, payload_after, bytes.fromhex(out['signature'])):
			problems.append('the new signature does not verify under the reference verifier')
	return f'{what}: ' + '; '.join(problems) if problems else None


# ---------------------------------------------------------------------------------------------------------------------

EXTRA_KINDS = {    # kind -> (implementation, oracle)
	'zerokey': (impl_zero_key, oracle_zero_key),
	'sign-session': (impl_sign_session, oracle_sign_session),
	'verify-session': (impl_verify_session, oracle_verify_session),
	'mutate-session': (impl_mutate_session, oracle_mutate_session)}


def run_entry_points_and_sessions(check, signed, with_model):
	"""Zero key through every entry point, signing sessions, verifier sessions.  Shared by run and oracle_only."""
	rng = check.rng
	quick = check.tier == 'quick'
	groups = [
		('zerokey', gen_zero_key_cases(rng, 1 if quick else 12), model_zero_key, 'EdZ-verify-model-vs-zero-key-entry-points'),
		('sign-session', gen_sign_sessions(rng, 14 if quick else 300), model_sign_sessions, 'EdZ+Payload-model-vs-signing-session'),
		('verify-session', gen_verify_sessions(rng, signed, 12 if quick else 400), model_verify_sessions, 'EdZ-verify-model-vs-Verifier-session'),
		('mutate-session', gen_mutate_sessions(rng, 1 if quick else 12), model_mutate_sessions, 'EdZ+Payload-model-vs-facade-after-in-place-assignment')]
	for kind, cases, model_function, correspondence in groups:
		implementation, oracle = EXTRA_KINDS[kind]
		outs = [implementation(case) for case in cases]
		if not with_model:
			models = [None] * len(cases)
		elif kind == 'mutate-session':
			models = model_function(cases, outs)
		else:
			models = model_function(cases)
		for case, out, model in zip(cases, outs, models):
			if kind == 'zerokey':
				label = f'zerokey:{case["net"]}:{case["entry"]}:{out}'
			elif kind == 'sign-session':
				label = f'sign-session:{case["net"]}:{case["via"]}:{len(case["items"])}:' + case.get('key_buffer', {}).get('mode', 'bytes')
			elif kind == 'verify-session':
				label = f'verify-session:{case["net"]}:{case["keytype"]}:{len(case["steps"])}'
			else:
				label = f'mutate-session:{case["net"]}:{case["edit"]["op"]}:' + (out['error'] if 'error' in out else f'old-signature-{out["old_verifies"]}')
				if with_model and 'error' not in out:
					out = {**out, **{name: out[name] for name in model}}
					model = {**out, **model}
			check.case(label, repr(sorted(case.items())))
			if with_model and out != model and not (isinstance(out, str) and out.startswith('unparsable')):
				check.disagree(correspondence, case, out, model)
			problem = oracle(case, out)
			if problem:
				check.fail(signature_of(case), problem, {'case': case, 'observed': out, 'how': 'run.py replay <this file>'})
		if cases:
			check.sample({'case': shorten(cases[0]), 'observed': outs[0]})


def shorten(case):
	def short(value):
		if isinstance(value, str) and len(value) >= 130:
			return value[:120] + '...'
		if isinstance(value, list):
			return [short(item) for item in value]
		if isinstance(value, dict):
			return {key: short(item) for key, item in value.items()}
		return value
	return short(case)


def signature_of(case):
	detail = '/'.join(str(case[name]) for name in ('entry', 'via', 'what', 'tx_kind', 'member') if name in case)
	return f'{case["kind"]}:{case.get("net", "sym")}:{detail}:' \
		+ hashlib.sha256(repr(sorted(case.items())).encode('utf8')).hexdigest()[:12]


def run(check, unrecognised):
	import resource
	soft, hard = resource.getrlimit(resource.RLIMIT_AS)
	limit = 12 * 2 ** 30
	resource.setrlimit(resource.RLIMIT_AS, (limit if hard == resource.RLIM_INFINITY else min(limit, hard), hard))   # safety net, see tx_bit_case
	check.trusted += [
		'translator harness/gen.py (KeyPairOps, PayloadOps: constants / operators of the anchors listed in harness/gens/c07.py; hole-less anchors are pinned verbatim)',
		'cryptography 38.0.4 / OpenSSL Ed25519 (the Symbol KeyPair/Verifier delegate to it; also the SHA-512 reference of the oracle)',
		'harness nacl.bindings shim standing in for libsodium (NEM implementation side), sha3 shim (Keccak of the NEM implementation side and of the oracle)',
		'RFC 8032 section 6 sample code transcribed in harness/edmodel.py (oracle reference for Keccak-512 Ed25519)',
		'OCaml 4.13.1 + zarith 1.12 + Coq extraction with these directives (verbatim):'] + edmodel.extraction_directives()
	check.assume += [
		'EdZ_group_premise: the integer formulas of Sym/EdZ.v implement a commutative group with base point of order L and an injective, '
		'decodable 32-byte encoding (the edwards25519 group law) -- NOT proved, premise of every *_partial theorem, sampled only',
		'OpenSSL implements RFC 8032 verification as modelled (S < L, permissive point decoding, byte comparison with R); libsodium as documented',
		'hash functions are fixed functions; no collision-resistance claim (verify_modified_iff_collision characterises what a collision would do)',
		'unmodelled: libsodium errors for a zero scalar / neutral result (h = 0 or r = 0 mod L), ByteArray length checks']
	check.extra['rule'] = 'keys x real transactions (transfer, key link, hash lock, namespace registration, aggregate complete/bonded with embedded ' \
		'transactions and cosignatures on Symbol; transfer v1/v2, multisig modification, multisig with/without cosignatures, cosignature on NEM) x ' \
		'{mainnet, testnet}; perturbations: single bit of payload / R / S / key, S+kL, S=0, zero key, small-order and non-canonical keys, forged ' \
		'signature for the neutral key, one bit in the signed serialized transaction; for EVERY valid signature: each bit of the top byte of S and of R, S+2^255, S+2^252, S+kL (k=1..8), S=L-1/L/L+1; cosignatures (attached/detached); voting key trees; ' \
		'key and signature handed over as CryptoTypes objects or as the generated codec objects (sc/nc PublicKey, Signature); the all-zero key through ' \
		'Verifier(CryptoTypes key / codec key / default-constructed codec key), facade.verify_transaction on created (signer given as PublicKey, hex, ' \
		'bytes) and deserialized zero-signer transactions (signature passed or taken from the transaction) and a parsed cosignature, each with R||0 ' \
		'for the 8 small-order R (incl. the all-zero signature) and an honest signer\'s signature, on both networks of both chains; signing sessions ' \
		'(ONE KeyPair / facade account object signs 3-5 payloads, transactions or cosigned hashes, the first one again later, every signature ' \
		'against the reference; all this also with the PrivateKey over a caller-owned bytearray that is kept, wiped or loaded with the next key while the key pair is in use); verifier sessions (ONE Verifier object, valid and perturbed pairs interleaved); use / assign / use sessions on ONE ' \
		'transaction object (hash, payload, sign, verify in several orders, then one member assigned in place -- top-level number, any nested member, ' \
		'signature, signer, list pop/append, BaseValue.value, and the head members version (one bit) and type_ (another enumeration member) -- then verify(old signature) must fail iff the documented payload or the signer ' \
		'changed, and signing again must give the reference signature of the current payload), all transaction kinds, both chains and networks. ' \
		'distinct = distinct (kind, arguments)'
	for module in ('KeyPairOps', 'PayloadOps'):
		for anchor in unrecognised.get(module, []):
			check.notes.append(f'anchor not recognised, pinned constants used: {anchor}')
			check.broken.append(f'shape:{anchor}')
	status, out = run_command(['/usr/bin/python3', '-m', 'nacl.bindings'], 120, cwd=SHIMS)
	if status != 0:
		raise RuntimeError(f'nacl.bindings shim self-test failed:\n{out}')
	check.prove('C07.v')
	try:
		edmodel.ensure_binary()
	except edmodel.ModelUnavailable as ex:
		check.obligation('executable-model-builds', False, str(ex)[-1500:])
		oracle_only(check)
		return
	quick = check.tier == 'quick'
	n_sign, n_verify, n_cosign, n_voting = (30, 200, 6, 4) if quick else (2000, 20000, 200, 60)

	# extraction cross-check (vm_compute inside Coq vs the extracted binary)
	rng = check.rng
	cross = [f'pub sym {rand_bytes(rng, 32).hex()}', f'pub nem {rand_bytes(rng, 32).hex()}', f'pub sym {bytes(32).hex()}',
		f'hash sha512 {rand_bytes(rng, 150).hex()}', f'hash keccak512 {rand_bytes(rng, 150).hex()}']
	sign_cases = gen_sign_cases(rng, n_sign)
	sample_case = sign_cases[0]
	cross.append(f'payload sym {seed_of(sample_case).hex()} {sample_case["tx"]}' if sample_case['net'] == 'sym' else f'payload nem {sample_case["tx"]}')
	from concurrent.futures import ThreadPoolExecutor
	with ThreadPoolExecutor(max_workers=1) as background:
		pending = background.submit(edmodel.cross_check, check, cross, 'c07x')

		# signatures
		outs = [impl_sign(case) for case in sign_cases]
		models = model_sign(sign_cases)
		for case, out, model in zip(sign_cases, outs, models):
			check.case(f'sign:{case["net"]}:{case["tx_kind"]}', case['secret'] + case['tx'])
			if out != model:
				check.disagree('EdZ+Payload-model-vs-facade.sign_transaction', case, out, model)
			problem = oracle_sign(case, out)
			if problem:
				check.fail(signature_of(case), problem, {'case': case, 'observed': out, 'how': 'run.py replay <this file>'})
		signed = list(zip(sign_cases, outs))

		# perturbations
		verify_cases = gen_verify_cases(rng, signed, n_verify) + systematic_signature_cases(signed) + systematic_head_bit_cases(signed)
		verdicts = [impl_verify(case) for case in verify_cases]
		model_verdicts = model_verify(verify_cases)
		for case, out, model in zip(verify_cases, verdicts, model_verdicts):
			label = f'verify:{case["net"]}:{case["what"]}' + (':unparsable' if out.startswith('unparsable') else f':{out}')
			check.case(label, repr(sorted(case.items())))
			if not out.startswith('unparsable') and out != model:
				check.disagree('EdZ-verify-model-vs-Verifier/verify_transaction', case, out, model)
			problem = oracle_verify(case, out)
			if problem:
				check.fail(signature_of(case), problem, {'case': case, 'observed': out, 'how': 'run.py replay <this file>'})

		# cosignatures
		cosign_cases = gen_cosign_cases(rng, signed, n_cosign)
		cosign_outs = [impl_cosign(case) for case in cosign_cases]
		cosign_models = edmodel.query([
			f'cosign {case["secret"]} {out["hash"]} {1 if case["detached"] else 0}' if 'error' not in out else 'hash sha256 -'
			for case, out in zip(cosign_cases, cosign_outs)])
		for case, out, model in zip(cosign_cases, cosign_outs, cosign_models):
			check.case('cosign:' + ('detached' if case['detached'] else 'attached'), case['secret'] + case['tx'])
			if out.get('cosignature') != model:
				check.disagree('cosignature-model-vs-facade.cosign_transaction', case, out, model)
			problem = oracle_cosign(case, out)
			if problem:
				check.fail(signature_of(case), problem, {'case': case, 'observed': out, 'how': 'run.py replay <this file>'})

		# voting key trees
		voting_cases = gen_voting_cases(rng, n_voting)
		voting_outs = [impl_voting(case) for case in voting_cases]
		voting_models = edmodel.query([f'voting {case["root"]} {case["start"]} {case["end"]} {"".join(case["children"])}' for case in voting_cases])
		for case, out, model in zip(voting_cases, voting_outs, voting_models):
			check.case(f'voting:{len(case["children"])}', repr(sorted(case.items())))
			if out != model:
				check.disagree('voting-tree-model-vs-VotingKeysGenerator.generate', case, out[:200], model[:200])
			problem = oracle_voting(case, out)
			if problem:
				check.fail(signature_of(case), problem, {'case': case, 'observed': out[:400], 'how': 'run.py replay <this file>'})

		# zero key through every entry point; one key pair / account / verifier object used several times
		run_entry_points_and_sessions(check, signed, True)
		check.extra['extraction_cross_checked_cases'] = pending.result()

	for case, out in (signed[:1] + list(zip(verify_cases, verdicts))[:1] + list(zip(voting_cases, voting_outs))[:1]):
		shown = {k: (v if not isinstance(v, str) or len(v) < 130 else v[:120] + '...') for k, v in case.items()}
		check.sample({'case': shown, 'observed': out if not isinstance(out, str) or len(out) < 200 else out[:200] + '...'})
	check.extra['parallelism'] = NCPU


def oracle_only(check):
	"""The model cannot be built (a regenerated constant broke it): the property oracle alone searches for a failing input."""
	rng = check.rng
	sign_cases = gen_sign_cases(rng, 30)
	outs = [impl_sign(case) for case in sign_cases]
	for case, out in zip(sign_cases, outs):
		check.case(f'sign:{case["net"]}:{case["tx_kind"]}', case['secret'] + case['tx'])
		problem = oracle_sign(case, out)
		if problem:
			check.fail(signature_of(case), problem, {'case': case, 'observed': out, 'how': 'run.py replay <this file>'})
	verify_cases = gen_verify_cases(rng, list(zip(sign_cases, outs)), 200) + systematic_signature_cases(list(zip(sign_cases, outs))) \
		+ systematic_head_bit_cases(list(zip(sign_cases, outs)))
	for case in verify_cases:
		out = impl_verify(case)
		check.case(f'verify:{case["net"]}:{case["what"]}', repr(sorted(case.items())))
		problem = oracle_verify(case, out)
		if problem:
			check.fail(signature_of(case), problem, {'case': case, 'observed': out, 'how': 'run.py replay <this file>'})
	run_entry_points_and_sessions(check, list(zip(sign_cases, outs)), False)


def replay(data):
	case = data['replay']['case']
	kind = case['kind']
	if kind == 'sign':
		out = impl_sign(case)
		problem = oracle_sign(case, out)
	elif kind == 'verify':
		out = impl_verify(case)
		problem = oracle_verify(case, out)
	elif kind == 'cosign':
		out = impl_cosign(case)
		problem = oracle_cosign(case, out)
	elif kind in EXTRA_KINDS:
		implementation, oracle = EXTRA_KINDS[kind]
		out = implementation(case)
		problem = oracle(case, out)
	else:
		out = impl_voting(case)
		problem = oracle_voting(case, out)
	print('observed:', out)
	print('property:', problem or 'holds')
	return 1 if problem else 0
