"""C03: the shipped codec modules (symbolchain/sc, symbolchain/nc) are exactly the generator output, and that output is a pure
function of schemas and generator.

Three parts:
(a) PROOF (outline level): Props/C03.v -- kernel equalities `outline sc_schema = sc_outline_actual`, `outline nc_schema =
    nc_outline_actual` on terms regenerated at every run, plus the generic theorems over the model Cats.Outline.
    When an equality fails, the model outline and the checked-in outline are rendered as text on both sides and the first differing
    line is reported (correspondence `outline-model-vs-checked-in-module`).
(b) EXECUTION (regeneration matrix): the real CLI + generator, invoked as scripts/run_catbuffer_generator.sh does, for both networks
    under PYTHONHASHSEED x working directory x relative/absolute paths x fresh/pre-populated output directory (+ schema trees copied
    in other file-creation orders); every output must be byte-identical to the checked-in module (hence to each other).
(c) EXECUTION (state left by a previous run): consecutive CLI runs into the same directory, and several generator runs inside ONE
    interpreter process (sc, nc, sc, nc), compared byte for byte."""
import concurrent.futures
import hashlib
import os
import re
import shutil
from pathlib import Path

from .. import common
from ..common import NCPU, REPO
from ..gens import c03 as gens

MANIFEST = {
	'text': 'Level proof, PARTIAL. Proved (Props/C03.v, closed under the global context): the kernel equalities outline sc_schema = '
		'sc_outline_actual and outline nc_schema = nc_outline_actual -- every class, base, SIZE, enum member/value, constant, TYPE_HINTS key '
		'and hint, method (decorator, name, result annotation) in order, every factory, mapping entry and create_by_name key of the two '
		'checked-in modules is what the model of the generator (Cats.Outline, constants and method order regenerated from '
		'sdk/python/generator at every run) yields for the expanded shipped schemas; generic theorems for all declaration lists: '
		'outline_order, factories_last_in_decl_order, factories_after_all_classes, factory_entries_are_children, factory_entry_keys, '
		'outline_ext, class_depends_on_references_only. NOT proved: method BODIES, the module header and independence of the CPython '
		'runtime (hash seed, working directory, enumeration order, stale output); these are covered only by EXECUTION -- the regeneration '
		'matrix runs the real CLI + generator for both networks under 4 (thorough: 36) hash seeds x 4 working directories x relative/absolute '
		'paths x fresh/pre-populated output directory (+ reordered schema trees, consecutive and same-process runs) and compares every output '
		'byte for byte with the checked-in module.',
	'design_ref': 'DESIGN.md section 4, C03',
	'technique': 'Coq proof over regenerated outline model + kernel equality with the ast-extracted outline of the checked-in modules; '
		'execution matrix of the real generator with byte comparison',
}

NETWORKS = {
	'sc': ('symbol', 'sdk/python/symbolchain/sc/__init__.py', 'OutlineSc', 'sc_schema'),
	'nc': ('nem', 'sdk/python/symbolchain/nc/__init__.py', 'OutlineNc', 'nc_schema'),
}
PYTHON = '/usr/bin/python3'
PRELUDE = 'From Coq Require Import List String.\nFrom Symv Require Import Cats.Layout Cats.Derive Cats.Outline Gen.SchemaSc Gen.SchemaNc.\n' \
	'Import ListNotations.'
STRING_RE = re.compile(r'"((?:[^"]|"")*)"')
STALE = '#!/usr/bin/python\n# stale file left by a previous run\nraise RuntimeError("stale")\n'


def schema_paths(net, root=None):
	name = NETWORKS[net][0]
	base = Path(root) if root else REPO / 'catbuffer' / 'schemas' / name
	return base / 'all_generated.cats', base


def checked_in(net):
	return (REPO / NETWORKS[net][1]).read_bytes()


def first_difference(expected, actual):
	"""(1-based line number, expected line, actual line) of the first differing line of two byte strings."""
	left = expected.split(b'\n')
	right = actual.split(b'\n')
	for index in range(max(len(left), len(right))):
		a = left[index] if index < len(left) else None
		b = right[index] if index < len(right) else None
		if a != b:
			show = lambda line: '<end of file>' if line is None else line.decode('utf8', 'replace')[:240]  # noqa: E731
			return index + 1, show(a), show(b)
	return 0, '', ''


# ---------------------------------------------------------------------------------------------------------------------
# one invocation of the real CLI + generator

def command_line(schema, include, output):
	return [PYTHON, '-m', 'catparser', '--schema', str(schema), '--include', str(include), '--output', str(output), '--quiet',
		'--generator', 'generator.Generator']


LEFTOVERS = ('same', 'crlf', 'cr', 'mixed-newlines', 'trailing-newline', 'no-final-newline', 'trailing-text', 'truncated', 'empty',
	'other-net', 'bom', 'trailing-spaces', 'one-byte-changed')


def leftover_bytes(kind, net):
	"""What a previous run (of this or an earlier generator, on this or another platform) may have left as <output>/__init__.py."""
	current = checked_in(net)
	if kind == 'same':
		return current
	if kind == 'crlf':
		return current.replace(b'\n', b'\r\n')
	if kind == 'cr':
		return current.replace(b'\n', b'\r')
	if kind == 'mixed-newlines':
		lines = current.split(b'\n')
		return b''.join(line + (b'\r\n' if index % 3 == 0 else b'\n') for index, line in enumerate(lines[:-1])) + lines[-1]
	if kind == 'trailing-newline':
		return current + b'\n'
	if kind == 'no-final-newline':
		return current.rstrip(b'\n')
	if kind == 'trailing-text':
		return current + b'# left over\n'
	if kind == 'truncated':
		return current[:len(current) // 2]
	if kind == 'empty':
		return b''
	if kind == 'other-net':
		return checked_in([other for other in NETWORKS if other != net][0])
	if kind == 'bom':
		return b'\xef\xbb\xbf' + current
	if kind == 'trailing-spaces':
		return current.replace(b'\n', b' \n', 50)
	if kind == 'one-byte-changed':
		middle = len(current) // 2
		return current[:middle] + bytes([current[middle] ^ 1]) + current[middle + 1:]
	raise ValueError(kind)


def invoke(spec, scratch):
	"""Runs one invocation described by `spec` (a plain dict, also stored in replays); returns (bytes | None, listing, detail)."""
	net = spec['net']
	work = Path(scratch) / spec['id']
	work.mkdir(parents=True, exist_ok=True)
	output = work / net
	root = None
	if spec.get('schema_copy'):
		root = work / 'schemas'
		copy_tree_in_order(schema_paths(net)[1], root, spec['schema_copy'])
	schema, include = schema_paths(net, root)
	other_net = [other for other in NETWORKS if other != net][0]
	cwd = {
		'root': Path('/'), 'repo': REPO, 'scratch': Path(scratch), 'parent': work,
		# directories that hold files with the same relative names as the schema's imports, or the generator's own packages
		'schemas-own': Path(schema_paths(net)[1]), 'schemas-other': Path(schema_paths(other_net)[1]),
		'sdk': REPO / 'sdk' / 'python', 'parser': REPO / 'catbuffer' / 'parser', 'generator': REPO / 'sdk' / 'python' / 'generator',
	}[spec['cwd']]
	if spec.get('leftover'):
		output.mkdir(exist_ok=True)
		(output / '__init__.py').write_bytes(leftover_bytes(spec['leftover'], net))
	elif spec['prepopulated']:
		output.mkdir(exist_ok=True)
		(output / '__init__.py').write_text(STALE + '# padding\n' * 40000, encoding='utf8')   # longer than any generated module
		(output / 'stale_extra.py').write_text(STALE, encoding='utf8')
	before = set(os.listdir(output)) if output.exists() else set()
	if spec['relative']:
		schema, include, out_arg = (os.path.relpath(path, cwd) for path in (schema, include, output))
	else:
		out_arg = output
	env = common.impl_env()
	env['PYTHONHASHSEED'] = str(spec['seed'])
	results = []
	for _ in range(spec.get('repeat', 1)):
		status, out = common.run(command_line(schema, include, out_arg), 300, cwd=str(cwd), env=env)
		if status != 0:
			return None, [], f'exit status {status}: {out[-600:]}'
		try:
			results.append((output / '__init__.py').read_bytes())
		except OSError as ex:
			return None, [], f'no output file: {ex}'
	after = set(os.listdir(output))
	extra = sorted(after - before - {'__init__.py'})
	return results, extra, ' '.join(command_line(schema, include, out_arg)) + f'  (cwd={cwd}, PYTHONHASHSEED={spec["seed"]})'


def copy_tree_in_order(source, target, order):
	"""Copies a schema tree creating the files in another order ('reversed' or 'shuffled:<seed>'), so that directory enumeration
	(os.listdir / readdir order) differs from the original tree."""
	import random
	files = sorted(path for path in Path(source).rglob('*') if path.is_file())
	if order == 'reversed':
		files.reverse()
	else:
		random.Random(order).shuffle(files)
	for path in files:
		destination = Path(target) / path.relative_to(source)
		destination.parent.mkdir(parents=True, exist_ok=True)
		shutil.copyfile(path, destination)


IN_PROCESS_DRIVER = r'''
import sys
from catparser.__main__ import main
jobs = [line.split('\t') for line in sys.stdin.read().split('\n') if line]
for schema, include, output in jobs:
	sys.argv = ['catparser', '--schema', schema, '--include', include, '--output', output, '--quiet', '--generator', 'generator.Generator']
	main()
'''


def invoke_in_process(spec, scratch):
	"""Several generator runs inside ONE interpreter (state left in module globals / caches by a previous run)."""
	work = Path(scratch) / spec['id']
	work.mkdir(parents=True, exist_ok=True)
	jobs = []
	for index, net in enumerate(spec['sequence']):
		schema, include = schema_paths(net)
		jobs.append((net, str(schema), str(include), str(work / f'{index}_{net}')))
	env = common.impl_env()
	env['PYTHONHASHSEED'] = str(spec['seed'])
	status, out = common.run(
		[PYTHON, '-c', IN_PROCESS_DRIVER], 600, cwd=str(work), env=env, input_text='\n'.join('\t'.join(job[1:]) for job in jobs) + '\n')
	if status != 0:
		return None, f'exit status {status}: {out[-600:]}'
	outputs = []
	for net, _, _, output in jobs:
		try:
			outputs.append((net, (Path(output) / '__init__.py').read_bytes()))
		except OSError as ex:
			return None, f'no output file: {ex}'
	return outputs, f'one process, generator runs in sequence {spec["sequence"]} (PYTHONHASHSEED={spec["seed"]})'


def matrix(check):
	seeds = [0, 1, 4242, check.seed % (2 ** 32)]
	if check.tier == 'thorough':
		seeds += [check.rng.randrange(2 ** 32) for _ in range(32)]
	seeds = list(dict.fromkeys(seeds))
	specs = []
	for net in NETWORKS:
		for seed in seeds:
			for cwd in ('root', 'repo', 'scratch', 'parent'):
				for relative in (False, True):
					for prepopulated in (False, True):
						specs.append({
							'kind': 'cli', 'net': net, 'seed': seed, 'cwd': cwd, 'relative': relative, 'prepopulated': prepopulated,
							'id': f'{net}-{seed}-{cwd}-{"rel" if relative else "abs"}-{"pre" if prepopulated else "fresh"}'})
		for order in ('reversed', f'shuffled:{check.rng.randrange(2 ** 32)}'):
			specs.append({
				'kind': 'cli', 'net': net, 'seed': seeds[-1], 'cwd': 'scratch', 'relative': False, 'prepopulated': False, 'schema_copy': order,
				'id': f'{net}-copy-{order.replace(":", "-")}'})
		for cwd in ('schemas-own', 'schemas-other', 'sdk', 'parser', 'generator'):
			for relative in (False, True):
				specs.append({
					'kind': 'cli', 'net': net, 'seed': seeds[0], 'cwd': cwd, 'relative': relative, 'prepopulated': False,
					'id': f'{net}-cwd-{cwd}-{"rel" if relative else "abs"}'})
		for index, leftover in enumerate(LEFTOVERS):
			specs.append({
				'kind': 'cli', 'net': net, 'seed': seeds[index % len(seeds)], 'cwd': 'scratch', 'relative': False, 'prepopulated': True, 'leftover': leftover,
				'id': f'{net}-leftover-{leftover}'})
		for seed in seeds[:4]:
			specs.append({
				'kind': 'cli', 'net': net, 'seed': seed, 'cwd': 'parent', 'relative': True, 'prepopulated': False, 'repeat': 2,
				'id': f'{net}-{seed}-consecutive'})
	for seed in seeds[:4]:
		specs.append({'kind': 'in-process', 'seed': seed, 'sequence': ['sc', 'nc', 'sc', 'nc'], 'id': f'inproc-{seed}'})
	return specs


def describe(spec):
	if spec['kind'] == 'in-process':
		return f'in-process sequence {spec["sequence"]} seed={spec["seed"]}'
	return f'net={spec["net"]} seed={spec["seed"]} cwd={spec["cwd"]} paths={"relative" if spec["relative"] else "absolute"} ' \
		f'output={("leftover:" + spec["leftover"]) if spec.get("leftover") else "pre-populated" if spec["prepopulated"] else "fresh"}' + (f' schema-copy={spec["schema_copy"]}' if spec.get('schema_copy') else '') \
		+ (f' runs={spec["repeat"]}' if spec.get('repeat') else '')


def run_spec(spec, scratch):
	"""Returns a list of (net, bytes) outputs, the extra files, a description of the command, or an error text."""
	if spec['kind'] == 'in-process':
		outputs, detail = invoke_in_process(spec, scratch)
		return (outputs, [], detail) if outputs is not None else (None, [], detail)
	results, extra, detail = invoke(spec, scratch)
	if results is None:
		return None, [], detail
	return [(spec['net'], data) for data in results], extra, detail


def judge(check, spec, outcome, expected, seen):
	"""Applies the property to one invocation: every output equals the checked-in module byte for byte."""
	outputs, extra, detail = outcome
	if outputs is None:
		net = spec.get('net', 'sc')
		check.fail(f'generator-failed:{net}', f'the generator did not produce a module ({describe(spec)}): {detail}',
			{'invocation': spec, 'detail': detail, 'how': 'run.py replay <this file>'})
		return
	for net, data in outputs:
		digest = hashlib.sha256(data).hexdigest()
		seen.setdefault(net, {}).setdefault(digest, (spec, data))
		if data != expected[net]:
			line, want, got = first_difference(expected[net], data)
			check.fail(
				f'generated-differs:{net}:{line}',
				f'regenerated {NETWORKS[net][1]} differs from the checked-in file at line {line} ({describe(spec)})',
				{'invocation': spec, 'command': detail, 'net': net, 'line': line, 'checked_in_line': want, 'generated_line': got,
					'how': 'run.py replay <this file>'})
	if extra:
		check.fail(f'generated-extra-file:{spec.get("net")}', f'the generator wrote files besides __init__.py: {extra} ({describe(spec)})',
			{'invocation': spec, 'command': detail, 'extra_files': extra, 'how': 'run.py replay <this file>'})


def regeneration_matrix(check):
	scratch = common.scratch_dir('c03')
	try:
		expected = {net: checked_in(net) for net in NETWORKS}
		specs = matrix(check)
		seen = {}
		with concurrent.futures.ThreadPoolExecutor(max_workers=NCPU) as pool:
			outcomes = list(pool.map(lambda spec: run_spec(spec, scratch), specs))
		for spec, outcome in zip(specs, outcomes):
			kind = 'regen:in-process' if spec['kind'] == 'in-process' else \
				f'regen:{spec["net"]}:{"pre-populated" if spec["prepopulated"] else "fresh"}:{"relative" if spec["relative"] else "absolute"}'
			check.case(kind, spec['id'])
			judge(check, spec, outcome, expected, seen)
		for net, by_digest in seen.items():
			if len(by_digest) > 1:
				(spec_a, data_a), (spec_b, data_b) = list(by_digest.values())[:2]
				line, one, two = first_difference(data_a, data_b)
				check.fail(
					f'generated-not-a-function:{net}',
					f'two invocations over the same schemas and generator produced different {net} modules (first difference at line {line}): '
					f'[{describe(spec_a)}] vs [{describe(spec_b)}]',
					{'invocation': spec_a, 'other_invocation': spec_b, 'net': net, 'line': line, 'first_output_line': one, 'second_output_line': two,
						'how': 'run.py replay <this file>'})
		check.extra['regeneration_matrix'] = {
			'invocations': len(specs), 'distinct_outputs': {net: len(by_digest) for net, by_digest in seen.items()},
			'seeds': sorted({spec['seed'] for spec in specs}), 'label': 'execution of the real CLI + generator (not a proof)'}
		for spec in specs[::max(1, len(specs) // 5)]:
			check.sample({'invocation': describe(spec), 'result': 'byte-identical to the checked-in module' if not check.failures else 'see failures'})
	finally:
		shutil.rmtree(scratch, ignore_errors=True)


# ---------------------------------------------------------------------------------------------------------------------
# outline correspondence as text (only to locate a difference; the kernel equality is the obligation)

def model_outline_lines(net):
	"""Lines of render_outline (outline <schema>) evaluated by vm_compute (one Coq string per class, so that printing stays shallow)."""
	work = common.COQ / 'Cases' / f'c03_{os.getpid()}'
	work.mkdir(parents=True, exist_ok=True)
	try:
		path = work / f'outline_{net}.v'
		path.write_text(
			f'{PRELUDE}\nOpen Scope string_scope.\nSet Printing Width 1000000.\nSet Printing Depth 10000000.\n'
			f'Eval vm_compute in map (fun e => String.concat nl (render_entry e)) (outline {NETWORKS[net][3]}).\n', encoding='utf8')
		status, out = common.run(['coqc', '-Q', str(common.COQ), 'Symv', str(path)], 600)
		if status != 0:
			raise RuntimeError(out[-600:])
		strings = [match.group(1).replace('""', '"') for match in STRING_RE.finditer(out)]
		return [line for text in strings for line in text.split('\n')]
	finally:
		shutil.rmtree(work, ignore_errors=True)


def outline_difference(check):
	for net in NETWORKS:
		try:
			model_lines = model_outline_lines(net)
		except RuntimeError as ex:
			check.notes.append(f'model outline of {net} could not be evaluated: {str(ex)[:300]}')
			continue
		entries = gens.actual_entries(NETWORKS[net][2])
		actual_lines = gens.render_entries(entries)
		for entry in entries:
			check.case(f'outline:{net}:{entry[0]}', f'{net}:{entry[1]}')
		for index in range(max(len(model_lines), len(actual_lines))):
			model_line = model_lines[index] if index < len(model_lines) else '<end>'
			actual_line = actual_lines[index] if index < len(actual_lines) else '<end>'
			if model_line != actual_line:
				owner = next((line for line in reversed(actual_lines[:index + 1]) if not line.startswith(' ')), '?')
				check.disagree('outline-model-vs-checked-in-module', {'net': net, 'outline_line': index + 1, 'inside': owner}, actual_line, model_line)
				break


def run(check, unrecognised):
	check.trusted += [
		'translators harness/gens/c03.py (OutlineOps: string constants of the generator through pinned anchors; OutlineOrder: order of the '
		'append/extend statements of generate_methods; OutlineSc/OutlineNc: Python-ast extractor of the checked-in modules, fail closed) and '
		'harness/gens/c01.py + harness/astdump.py (expanded schemas through /repo\'s own parser and post-processor)',
		'modelled, not verified: Python str/re semantics of name_formatting (ASCII names), dict insertion order, list order',
		'regeneration matrix: CPython 3.11 /usr/bin/python3, lark from the baseline venv, the file system of the sandbox']
	check.assume += [
		'method bodies, module header and runtime independence (hash seed, cwd, enumeration order, stale output) are established by execution only',
		'declaration names are unique (type_map keeps the last, the model looks up the first; the validator rejects duplicates)']
	check.extra['rule'] = 'outline cases: one per class / factory of the two checked-in modules (distinct = distinct (module, class)); regeneration cases: ' \
		'one per invocation of the real CLI (distinct = distinct (network, seed, cwd, relative/absolute, fresh/pre-populated, schema copy order, ' \
		'repeat) tuple); all are non-trivial (each regenerates or compares a whole module)'
	if unrecognised.get('OutlineOps'):
		check.notes.append(f'anchors not recognised, pinned constants used for them: {unrecognised["OutlineOps"]}')
	for key, value in check.shape_report.items():
		if 'generate_methods' in key and '?' in str(value):
			check.notes.append(f'method order not recognised: {key}: {value}')
			check.broken.append(f'shape:{key}')
	proved = check.prove('C03.v')
	outline_difference(check)
	if not proved and not check.disagreements:
		check.notes.append('Props/C03.v does not compile although the rendered outlines agree (see the obligation detail)')
	regeneration_matrix(check)


def replay(data):
	"""Re-runs the recorded invocation of the real generator and compares with the checked-in module."""
	recorded = data['replay']
	spec = recorded['invocation']
	scratch = common.scratch_dir('c03')
	try:
		outputs, extra, detail = run_spec(spec, scratch)
		print('invocation:', describe(spec))
		print('command:', detail)
		if outputs is None:
			print('property: FAILS (no module produced)')
			return 1
		status = 0
		for net, output in outputs:
			expected = checked_in(net)
			if output == expected:
				print(f'{net}: byte-identical to the checked-in module')
				continue
			line, want, got = first_difference(expected, output)
			print(f'{net}: differs from {NETWORKS[net][1]} at line {line}')
			print(f'  checked-in: {want}')
			print(f'  generated : {got}')
			status = 1
		if extra:
			print('extra files written:', extra)
			status = 1
		other = recorded.get('other_invocation')
		if other:
			other_outputs, _, other_detail = run_spec(other, scratch)
			print('other invocation:', describe(other))
			print('command:', other_detail)
			if other_outputs is not None and [d for _, d in other_outputs] != [d for _, d in outputs]:
				line, one, two = first_difference(outputs[0][1], other_outputs[0][1])
				print(f'the two invocations disagree at line {line}:\n  first : {one}\n  second: {two}')
				status = 1
		print('property:', 'FAILS' if status else 'holds')
		return status
	finally:
		shutil.rmtree(scratch, ignore_errors=True)

