"""Shared machinery of the checks: paths, Coq build/eval, shape extraction (S), evidence, violations, known findings."""
import ast
import copy
import contextlib
import fcntl
import hashlib
import json
import os
import random
import re
import shutil
import subprocess
import sys
import time
from pathlib import Path

VERIF = Path(__file__).resolve().parent.parent
REPO = Path(os.environ.get('VERIF_REPO', '/repo'))
WORK = Path(os.environ['VERIF_WORK']) if os.environ.get('VERIF_WORK') else VERIF   # isolated scratch mode for mutation trials
COQ = WORK / 'coq'
GEN = COQ / 'Gen'
GENREF = COQ / 'GenRef'
PROPS = COQ / 'Props'
SHIMS = VERIF / 'harness' / 'shims'
PYDEPS = VERIF / 'harness' / 'pydeps'
NCPU = min(16, os.cpu_count() or 4)

IMPL_PATHS = [str(SHIMS), str(PYDEPS), str(REPO / 'catbuffer' / 'parser'), str(REPO / 'sdk' / 'python'), str(REPO / 'linters' / 'cpp')]


def setup_impl_path():
	"""Makes the code under test importable from REPO's working tree (never an installed copy)."""
	for path in reversed(IMPL_PATHS):
		if path in sys.path:
			sys.path.remove(path)
		sys.path.insert(0, path)
	sys.dont_write_bytecode = True
	try:
		import yaml  # noqa: F401  pylint: disable=unused-import,import-outside-toplevel
	except ImportError:
		sys.path.append(str(VERIF / 'harness' / 'pydeps_stub'))


def impl_env():
	env = dict(os.environ)
	env['PYTHONPATH'] = os.pathsep.join(IMPL_PATHS)
	env['PYTHONHASHSEED'] = env.get('PYTHONHASHSEED', '0')
	env['PYTHONDONTWRITEBYTECODE'] = '1'
	env.pop('SYMBOL_SYMBOL_VERIF', None)
	return env


def prepare_work():
	"""In scratch mode (VERIF_WORK set) mirrors /verif/coq (with its build output) into the scratch directory."""
	if WORK == VERIF:
		return
	WORK.mkdir(parents=True, exist_ok=True)
	subprocess.run(['rsync', '-a', '--delete', '--exclude', 'Cases', '--exclude', '.lock', f'{VERIF}/coq/', f'{COQ}/'], check=True)
	if os.environ.get('VERIF_COQ_FROM_HEAD'):
		# trial runs while somebody is editing proofs: use the committed version of every tracked coq file that is modified
		changed = subprocess.run(['git', '-C', str(VERIF), 'diff', '--name-only', 'HEAD', '--', 'coq'], capture_output=True, text=True, check=False).stdout.split()
		untracked = subprocess.run(['git', '-C', str(VERIF), 'ls-files', '--others', '--exclude-standard', '--', 'coq'], capture_output=True, text=True, check=False).stdout.split()
		for name in changed:
			blob = subprocess.run(['git', '-C', str(VERIF), 'show', f'HEAD:{name}'], capture_output=True, check=False)
			target = WORK / name
			if blob.returncode == 0:
				target.write_bytes(blob.stdout)
			elif target.exists():
				target.unlink()
		for name in untracked:
			if name.endswith('.v') and (WORK / name).exists():
				(WORK / name).unlink()


def scratch_dir(tag):
	path = Path('/var/tmp') / f'symv-{os.getpid()}-{tag}'
	if path.exists():
		shutil.rmtree(path)
	path.mkdir(parents=True)
	return path


# ---------------------------------------------------------------------------------------------------------------------
# Coq side

@contextlib.contextmanager
def coq_lock():
	lock_path = COQ / '.lock'
	with open(lock_path, 'w', encoding='utf8') as handle:
		fcntl.flock(handle, fcntl.LOCK_EX)
		try:
			yield
		finally:
			fcntl.flock(handle, fcntl.LOCK_UN)


def run(cmd, timeout, cwd=None, env=None, input_text=None):
	"""Runs a command under a timeout; returns (status, stdout+stderr). status None = timed out."""
	try:
		proc = subprocess.run(
			cmd, cwd=cwd, env=env, input=input_text, stdout=subprocess.PIPE, stderr=subprocess.STDOUT, timeout=timeout, text=True, check=False)
		return proc.returncode, proc.stdout
	except subprocess.TimeoutExpired as ex:
		out = ex.stdout.decode('utf8', 'replace') if isinstance(ex.stdout, bytes) else (ex.stdout or '')
		return None, out


def write_if_changed(path, text):
	path = Path(path)
	if path.exists() and path.read_text(encoding='utf8') == text:
		return False
	path.parent.mkdir(parents=True, exist_ok=True)
	path.write_text(text, encoding='utf8')
	return True


def static_coq_files():
	files = []
	for sub in ('Base', 'Cats', 'Sym', 'Lint', 'Gen', 'Props'):
		files += sorted(str(p.relative_to(COQ)) for p in (COQ / sub).glob('*.v'))
	return files


def coq_make(timeout=1500, keep_going=True, target=None):
	"""Builds every model/proof library file (not Props, which the checks compile themselves to capture the output)."""
	with coq_lock():
		files = static_coq_files()
		listing = '\n'.join(['-Q . Symv'] + files) + '\n'
		if write_if_changed(COQ / '_CoqProject.build', listing) or not (COQ / 'Makefile').exists():
			status, out = run(['coq_makefile', '-f', '_CoqProject.build', '-o', 'Makefile'], 120, cwd=COQ)
			if status != 0:
				return False, out
		targets = [target] if isinstance(target, str) else list(target or [])
		status, out = run(['make', f'-j{NCPU}'] + (['-k'] if keep_going else []) + targets, timeout, cwd=COQ)
		return status == 0, out


def coqc(path, timeout=600):
	"""Compiles one file (relative to COQ); returns (ok, output, seconds)."""
	start = time.time()
	status, out = run(['coqc', '-Q', '.', 'Symv', str(path)], timeout, cwd=COQ)
	return status == 0, out, time.time() - start


_STRING_RE = re.compile(r'"((?:[^"]|"")*)"')


def _unlimited_stack():
	"""coqc recurses deeply on long literals (vm_compute of a cases file): lift the soft stack limit to the hard one."""
	import resource
	_soft, hard = resource.getrlimit(resource.RLIMIT_STACK)
	resource.setrlimit(resource.RLIMIT_STACK, (hard, hard))


_IMPORTS_BUILT = set()


def _build_imports(imports):
	"""Brings the libraries a cases file imports up to date (they may lie outside the dependency cone of the Props file the
	check built, and a regenerated Gen file would otherwise leave them stale: 'inconsistent assumptions')."""
	modules = sorted(set(re.findall(r'\b((?:Base|Cats|Sym|Lint|Gen|Props)\.[A-Za-z0-9_\']+)', imports)))
	targets = [m.replace('.', '/') + '.vo' for m in modules if (COQ / (m.replace('.', '/') + '.v')).exists()]
	key = tuple(targets)
	if not targets or key in _IMPORTS_BUILT:
		return
	_IMPORTS_BUILT.add(key)
	ok, out = coq_make(target=targets, keep_going=True)
	if not ok:
		sys.stderr.write('warning: building the imports of a cases file failed:\n' + out[-1500:] + '\n')


def coq_eval(imports, exprs, tag, shard=250, timeout=900):
	"""Evaluates Gallina expressions of type string with vm_compute; returns the list of resulting strings.
	imports: text placed at the head of every cases file."""
	if not exprs:
		return []
	_build_imports(imports)
	work = COQ / 'Cases' / f'{tag}_{os.getpid()}'
	if work.exists():
		shutil.rmtree(work)
	work.mkdir(parents=True)
	names = []
	for k in range(0, len(exprs), shard):
		name = f'cases_{k // shard}'
		body = ';\n  '.join(f'({e})' for e in exprs[k:k + shard])
		text = f'{imports}\nOpen Scope string_scope.\nSet Printing Width 1000000.\nSet Printing Depth 10000000.\n' \
			f'Definition out : list string := [\n  {body}\n].\nEval vm_compute in out.\n'
		(work / f'{name}.v').write_text(text, encoding='utf8')
		names.append(name)
	procs = []
	results = {}
	pending = list(names)
	running = []
	failed = None
	statuses = {}
	while pending or running:
		while pending and len(running) < NCPU:
			name = pending.pop(0)
			proc = subprocess.Popen(
				['timeout', str(timeout), 'coqc', '-Q', str(COQ), 'Symv', str(work / f'{name}.v')],
				stdout=subprocess.PIPE, stderr=subprocess.STDOUT, text=True, preexec_fn=_unlimited_stack)
			running.append((name, proc))
		name, proc = running.pop(0)
		out, _ = proc.communicate()
		if proc.returncode != 0:
			failed = (name, out)
		results[name] = out
		statuses[name] = proc.returncode
	del procs
	single = {}
	for k, name in enumerate(names):
		out = results[name]
		expected_here = len(exprs[k * shard:(k + 1) * shard])
		complete = statuses.get(name) == 0 and len(_STRING_RE.findall(out)) == expected_here
		if complete:
			continue
		if re.search(r'^Error:(?! Stack overflow| Out of memory)', out, re.M) and 'Stack overflow' not in out and 'Out of memory' not in out:
			raise RuntimeError(f'model evaluation failed for {work / (name + ".v")}:\n{out[-3000:]}')
		# the shard died of resources (killed, timed out, stack / memory): evaluate its expressions one by one under a short limit; the
		# ones that still cannot be evaluated answer the out-of-fuel value of the models (callers count them as exhausted or as a difference)
		single[name] = _eval_one_by_one(imports, exprs[k * shard:(k + 1) * shard], work, name)
	values = []
	for k, name in enumerate(names):
		if name in single:
			values += single[name]
			continue
		found = [m.group(1).replace('""', '"') for m in _STRING_RE.finditer(results[name])]
		expected = len(exprs[k * shard:(k + 1) * shard])
		if len(found) != expected:
			raise RuntimeError(f'model evaluation of {name} produced {len(found)} strings, expected {expected}:\n{results[name][:2000]}')
		values += found
	shutil.rmtree(work)
	return values


MODEL_EXHAUSTED = 'crash:OutOfFuel:model-resources'


def _limited_coqc():
	import resource
	_unlimited_stack()
	resource.setrlimit(resource.RLIMIT_AS, (8 << 30, 8 << 30))


def _eval_one_by_one(imports, exprs, work, name):
	values = []
	jobs = []
	for index, expr in enumerate(exprs):
		path = work / f'{name}_single_{index}.v'
		path.write_text(f'{imports}\nOpen Scope string_scope.\nSet Printing Width 1000000.\nSet Printing Depth 10000000.\n'
			f'Definition out : list string := [\n  ({expr})\n].\nEval vm_compute in out.\n', encoding='utf8')
		jobs.append(path)
	running = []
	outputs = {}
	pending = list(enumerate(jobs))
	while pending or running:
		while pending and len(running) < NCPU:
			index, path = pending.pop(0)
			running.append((index, subprocess.Popen(['timeout', '120', 'coqc', '-Q', str(COQ), 'Symv', str(path)],
				stdout=subprocess.PIPE, stderr=subprocess.STDOUT, text=True, preexec_fn=_limited_coqc)))
		index, proc = running.pop(0)
		out, _ = proc.communicate()
		outputs[index] = (proc.returncode, out)
	for index in range(len(exprs)):
		status, out = outputs[index]
		found = [m.group(1).replace('""', '"') for m in _STRING_RE.finditer(out)] if status == 0 else []
		if len(found) == 1:
			values.append(found[0])
		elif status != 0 and re.search(r'^Error:', out, re.M) and 'Stack overflow' not in out and 'Out of memory' not in out:
			raise RuntimeError(f'model evaluation failed for {jobs[index]}:\n{out[-3000:]}')
		else:
			values.append(MODEL_EXHAUSTED)
	return values


def zlit(value):
	return f'({value})%Z' if value < 0 else f'{value}%Z'


def blit(data):
	"""Coq literal (bytes = list Z) for a Python bytes value."""
	return '[' + '; '.join(str(b) for b in data) + ']%Z'


def slit(text):
	"""Coq string literal for ASCII text without quotes."""
	assert '"' not in text and all(32 <= ord(c) < 127 for c in text), text
	return f'"{text}"'


# ---------------------------------------------------------------------------------------------------------------------
# S: shape extraction from Python sources

_OPS = {
	ast.Lt: 'Lt', ast.LtE: 'Le', ast.Gt: 'Gt', ast.GtE: 'Ge', ast.Eq: 'Eq', ast.NotEq: 'Ne', ast.In: 'In', ast.NotIn: 'NotIn',
	ast.Is: 'Is', ast.IsNot: 'IsNot', ast.Add: 'Add', ast.Sub: 'Sub', ast.Mult: 'Mul', ast.FloorDiv: 'FloorDiv', ast.Mod: 'Mod',
	ast.BitOr: 'BitOr', ast.BitAnd: 'BitAnd', ast.BitXor: 'BitXor', ast.LShift: 'LShift', ast.RShift: 'RShift', ast.Div: 'Div',
	ast.And: 'And', ast.Or: 'Or', ast.Not: 'Not', ast.USub: 'USub', ast.Invert: 'Invert', ast.Pow: 'Pow', ast.UAdd: 'UAdd',
	ast.MatMult: 'MatMult'
}


def find_def(tree, qualname):
	"""Finds a function/class node by dotted name inside a parsed module."""
	node = tree
	for part in qualname.split('.'):
		found = None
		for child in ast.iter_child_nodes(node):
			if isinstance(child, (ast.FunctionDef, ast.ClassDef)) and child.name == part:
				found = child
				break
			if isinstance(child, ast.Assign) and any(isinstance(t, ast.Name) and t.id == part for t in child.targets):
				found = child
				break
		if found is None:
			return None
		node = found
	return node


_UNSAFE_CALLS = {'locals', 'vars', 'eval', 'exec', 'globals', 'dir'}


def _bound_names(func):
	"""Names bound by assignment-like constructs inside a function body, or None when the function has a construct this simple
	reading does not cover (nested scopes other than comprehensions, global/nonlocal, handlers binding a name, imports, match)."""
	params = {a.arg for a in func.args.posonlyargs + func.args.args + func.args.kwonlyargs}
	if func.args.vararg:
		params.add(func.args.vararg.arg)
	if func.args.kwarg:
		params.add(func.args.kwarg.arg)
	bound = []
	for node in ast.walk(func):
		if node is func:
			continue
		if isinstance(node, (ast.FunctionDef, ast.AsyncFunctionDef, ast.Lambda, ast.ClassDef, ast.Global, ast.Nonlocal, ast.Import, ast.ImportFrom)):
			return None
		if isinstance(node, ast.ExceptHandler) and node.name:
			return None
		if type(node).__name__.startswith('Match'):
			return None
		if isinstance(node, ast.Call) and isinstance(node.func, ast.Name) and node.func.id in _UNSAFE_CALLS:
			return None
		if isinstance(node, ast.Name) and isinstance(node.ctx, (ast.Store, ast.Del)) and node.id not in params and node.id not in bound:
			bound.append(node.id)
	return bound


def normalise_locals(node):
	"""Returns a copy of an anchor node in which, per function, every name the function binds itself (not its parameters) is
	replaced by a canonical one in order of first binding occurrence: two functions that differ by a consistent renaming of such
	names get the same skeleton."""
	node = copy.deepcopy(node)
	for func in [n for n in ast.walk(node) if isinstance(n, (ast.FunctionDef, ast.AsyncFunctionDef))]:
		bound = _bound_names(func)
		if not bound:
			continue
		# order of first occurrence in source order (ast.walk is breadth first: sort by position)
		first = {}
		for n in ast.walk(func):
			if isinstance(n, ast.Name) and n.id in bound:
				key = (n.lineno, n.col_offset)
				if n.id not in first or key < first[n.id]:
					first[n.id] = key
		mapping = {name: f'%{index}' for index, name in enumerate(sorted(first, key=lambda name: first[name]))}
		for n in ast.walk(func):
			if isinstance(n, ast.Name) and n.id in mapping:
				n.id = mapping[n.id]
	return node


def shape_of(node):
	"""Returns (skeleton, atoms): the AST with constants/operators erased, and the erased atoms in traversal order.
	Docstrings are dropped.  Atoms are ('c', value) for constants and ('o', name) for operators."""
	atoms = []
	node = normalise_locals(node)

	def walk(n):
		if isinstance(n, ast.Constant):
			atoms.append(('c', n.value))
			return 'C'
		if type(n) in _OPS:
			atoms.append(('o', _OPS[type(n)]))
			return 'O'
		if isinstance(n, ast.AST):
			fields = []
			for name, value in ast.iter_fields(n):
				if name in ('lineno', 'col_offset', 'end_lineno', 'end_col_offset', 'ctx', 'type_comment', 'kind', 'type_params'):
					continue
				if value is None or value == []:
					continue      # keeps the skeleton independent of the interpreter version (3.12 adds empty fields such as type_params)
				if name == 'body' and isinstance(value, list) and value and isinstance(value[0], ast.Expr) \
					and isinstance(value[0].value, ast.Constant) and isinstance(value[0].value.value, str) \
					and isinstance(n, (ast.FunctionDef, ast.ClassDef, ast.Module)):
					value = value[1:]
				fields.append(f'{name}={walk(value)}')
			return f'{type(n).__name__}({",".join(fields)})'
		if isinstance(n, list):
			return '[' + ','.join(walk(x) for x in n) + ']'
		return repr(n)

	skeleton = walk(node)
	return skeleton, atoms


class Shapes:
	"""Loads anchor functions of the working tree and compares them with the pinned skeletons (harness/shapes.json)."""
	PINNED_DIR = VERIF / 'harness' / 'shapes'

	def __init__(self):
		self.pinned = {}
		self.pinned_by_module = {}
		for path in sorted(self.PINNED_DIR.glob('*.json')):
			self.pinned_by_module[path.stem] = json.loads(path.read_text(encoding='utf8'))
			self.pinned.update(self.pinned_by_module[path.stem])
		self.report = {}
		self._trees = {}

	def use(self, module_name):
		"""Selects the pins of one Gen module (the same anchor may be pinned by several modules, possibly at different times)."""
		self.pinned = self.pinned_by_module.get(module_name, {})

	def tree(self, relpath):
		if relpath not in self._trees:
			try:
				self._trees[relpath] = ast.parse((REPO / relpath).read_text(encoding='utf8'))
			except (OSError, SyntaxError):
				self._trees[relpath] = None
		return self._trees[relpath]

	def atoms(self, relpath, qualname):
		"""Returns the atom list of an anchor when its skeleton equals the pinned one, else None (recorded in report)."""
		key = f'{relpath}::{qualname}'
		tree = self.tree(relpath)
		node = find_def(tree, qualname) if tree is not None else None
		if node is None:
			self.report[key] = 'missing'
			return None
		skeleton, atoms = shape_of(node)
		digest = hashlib.sha256(skeleton.encode('utf8')).hexdigest()[:16]
		pinned = self.pinned.get(key)
		if pinned is None:
			self.report[key] = f'unpinned:{digest}'
			return None
		if pinned['skeleton'] != digest:
			self.report[key] = f'shape-changed:{digest}'
			return None
		self.report[key] = 'recognised'
		return atoms

	def pin_entry(self, relpath, qualname):
		"""(Maintenance, never at check time) skeleton and atoms of an anchor in the current tree."""
		node = find_def(self.tree(relpath), qualname)
		if node is None:
			raise RuntimeError(f'anchor {relpath}::{qualname} not found')
		skeleton, atoms = shape_of(node)
		return {
			'skeleton': hashlib.sha256(skeleton.encode('utf8')).hexdigest()[:16],
			'atoms': [[kind, value if not isinstance(value, bytes) else 'hex:' + value.hex()] for kind, value in atoms]
		}


# ---------------------------------------------------------------------------------------------------------------------
# reporting

class Finding:
	def __init__(self, signature, what, replay):
		self.signature = signature
		self.what = what
		self.replay = replay


class Check:
	"""One run of one property's check: collects proof obligations, correspondence statistics, failures; writes evidence."""

	def __init__(self, pid, tier, seed):
		self.pid = pid
		self.tier = tier
		self.seed = seed
		self.rng = random.Random(f'{pid}:{seed}')
		self.start = time.time()
		self.obligations = []      # (name, ok, detail)
		self.assumptions_text = ''
		self.checker_cmds = []
		self.trusted = []
		self.assume = []
		self.evaluations = 0
		self.distinct = set()
		self.distribution = {}
		self.samples = []
		self.disagreements = []    # correspondence differences (dicts)
		self.failures = []         # Finding: property fails on the real code
		self.broken = []           # names of theorems / shapes / correspondences that no longer check
		self.notes = []
		self.shape_report = {}
		self.extra = {}

	# -- proof part
	def obligation(self, name, ok, detail=''):
		self.obligations.append((name, bool(ok), detail))
		if not ok:
			self.broken.append(f'obligation:{name}')

	def prove(self, props_file, timeout=900):
		"""Builds the libraries, then compiles Props/<file> capturing Print Assumptions; one obligation per theorem."""
		ok, out = coq_make(target=f'Props/{props_file[:-2]}.vo')
		self.checker_cmds.append(f'coq_makefile -f _CoqProject.build -o Makefile && make Props/{props_file[:-2]}.vo (coq/; builds the theorem file and everything it depends on)')
		make_out = out if not ok else ''
		ok, out, secs = coqc(f'Props/{props_file}', timeout)
		if not ok and make_out and 'Cannot find a physical path' not in make_out:
			out = out + '\n--- make output ---\n' + make_out[-3000:]
		self.checker_cmds.append(f'coqc -Q . Symv Props/{props_file}')
		text = (PROPS / props_file).read_text(encoding='utf8')
		names = re.findall(r'^\s*(?:Theorem|Lemma|Example|Corollary)\s+([A-Za-z0-9_\']+)', text, re.M)
		from harness import coq_lint
		declared = [f'{path.relative_to(COQ)}:{number}: {what}' for path in sorted(COQ.rglob('*.v')) if 'Cases' not in path.parts
			for number, what in coq_lint.scan(path)]
		self.extra['forbidden_declarations'] = declared
		if declared:
			self.obligation('no Axiom / Parameter / Admitted / assumption outside a section / switched-off kernel check in coq/', False, '\n'.join(declared[:20]))
		if ok:
			for name in names:
				self.obligation(name, True)
			self.assumptions_text = out[-6000:]
			self.extra['props_seconds'] = round(secs, 1)
			closed = len(re.findall(r'Closed under the global context', out))
			self.extra['closed_under_global_context'] = closed
			axioms = sorted(set(re.findall(r'^([A-Za-z_][A-Za-z0-9_.\']*)\s*:', _axioms_section(out), re.M)))
			self.extra['axioms_reported'] = axioms
			return True
		failing = _failing_theorem(text, out, props_file)
		if failing == 'unknown' or 'Cannot find a physical path' in out or 'Compiled library' in out:
			failing = 'dependency:' + _lemma_at_error(make_out or out)
		for name in names:
			if name == failing:
				self.obligation(name, False, out[-1500:])
				break
			self.obligation(name, True)
		else:
			self.obligation(f'{props_file}:{failing}', False, out[-1500:])
		return False

	# -- correspondence part
	def case(self, kind, key, nontrivial=True):
		self.evaluations += 1
		self.distribution[kind] = self.distribution.get(kind, 0) + 1
		if nontrivial:
			self.distinct.add((kind, key))

	def sample(self, item):
		if len(self.samples) < 6:
			self.samples.append(item)

	def disagree(self, name, case, impl, model):
		self.disagreements.append({'correspondence': name, 'case': case, 'implementation': impl, 'model': model})
		if f'correspondence:{name}' not in self.broken:
			self.broken.append(f'correspondence:{name}')

	def fail(self, signature, what, replay):
		self.failures.append(Finding(signature, what, replay))

	# -- verdict
	def finish(self):
		known = load_known()
		lines = []
		status = 0
		replay_dir = WORK / 'replays' / self.pid
		replay_dir.mkdir(parents=True, exist_ok=True)
		new_failures = []
		for finding in self.failures:
			entry = known.get((self.pid, finding.signature))
			if entry and entry.get('status') == 'known':
				lines.append(f'KNOWN-FINDING: property={self.pid} {entry.get("what", finding.what)}')
			else:
				new_failures.append(finding)
		lines = sorted(set(lines))
		seen = set()
		for finding in new_failures:
			if finding.signature in seen:
				continue
			seen.add(finding.signature)
			if len(seen) > 5:
				break
			path = replay_dir / (re.sub(r'[^A-Za-z0-9_.-]+', '_', finding.signature)[:80] + '.json')
			path.write_text(json.dumps({
				'property': self.pid, 'kind': 'property-violation', 'signature': finding.signature, 'what': finding.what,
				'replay': finding.replay, 'broken': self.broken}, indent=1, default=str) + '\n', encoding='utf8')
			lines.append(f'VIOLATION property={self.pid} replay={path}')
			status = 1
		if not new_failures and self.broken:
			path = replay_dir / 'tie-broken.json'
			path.write_text(json.dumps({
				'property': self.pid, 'kind': 'tie-broken', 'no_longer_checks': self.broken,
				'obligations': [{'name': n, 'ok': ok, 'detail': d} for n, ok, d in self.obligations if not ok],
				'disagreements': self.disagreements[:10], 'shapes': self.shape_report}, indent=1, default=str) + '\n', encoding='utf8')
			lines.append(f'VIOLATION property={self.pid} replay={path} no-failing-input-found')
			status = 1
		self.write_evidence(len(seen) + (1 if (not new_failures and self.broken) else 0))
		for line in lines:
			print(line)
		print(f'{self.pid} {self.tier}: obligations {sum(1 for _, ok, _ in self.obligations if ok)}/{len(self.obligations)}, '
			f'cases {self.evaluations}, disagreements {len(self.disagreements)}, property failures {len(self.failures)} '
			f'(unlisted {len(new_failures)}), {time.time() - self.start:.0f}s')
		return status

	def write_evidence(self, violations):
		discharged = sum(1 for _, ok, _ in self.obligations if ok)
		evidence = {
			'property_id': self.pid, 'tier': self.tier, 'seed': self.seed, 'level': 'proof',
			'coverage': {
				'obligations': len(self.obligations), 'discharged': discharged,
				'checker_cmd': ' ; '.join(self.checker_cmds) or 'none',
				'trusted_base': self.trusted,
				'theorems': [n for n, _, _ in self.obligations],
				'undischarged': [n for n, ok, _ in self.obligations if not ok],
				'print_assumptions': self.assumptions_text,
				'evaluations': self.evaluations, 'distinct_nontrivial': len(self.distinct),
				'rule': self.extra.pop('rule', ''),
				'samples': self.samples or ['(no correspondence cases in this run)'],
				'input_distribution': self.distribution,
				'correspondence_disagreements': len(self.disagreements),
				'disagreement_samples': self.disagreements[:5],
				'property_failures_on_implementation': len(self.failures),
				'anchor_shapes': self.shape_report,
				'notes': self.notes,
				**self.extra
			},
			'assumptions': self.assume,
			'wall_s': round(time.time() - self.start, 2),
			'violations': violations
		}
		path = WORK / 'evidence' / f'{self.pid}.json'
		path.parent.mkdir(exist_ok=True)
		path.write_text(json.dumps(evidence, indent=1, default=str) + '\n', encoding='utf8')


def _first_error(out):
	match = re.search(r'File "([^"]+)", line (\d+)', out)
	return f'{match.group(1)}:{match.group(2)}' if match else 'unknown'


def _lemma_at_error(out):
	match = re.search(r'File "([^"]+)", line (\d+)', out)
	if not match:
		return 'unknown'
	path = COQ / match.group(1)
	try:
		text = path.read_text(encoding='utf8')
	except OSError:
		return f'{match.group(1)}:{match.group(2)}'
	return f'{match.group(1)}:' + _failing_theorem(text, out, Path(match.group(1)).name)


def _axioms_section(out):
	parts = out.split('Axioms:')
	return '\n'.join(part.split('\n\n')[0] for part in parts[1:])


def _failing_theorem(text, out, props_file):
	match = re.search(r'File "[^"]*' + re.escape(props_file) + r'", line (\d+)', out)
	if not match:
		return 'unknown'
	line = int(match.group(1))
	current = 'unknown'
	for number, content in enumerate(text.split('\n'), 1):
		found = re.match(r'\s*(?:Theorem|Lemma|Example|Corollary)\s+([A-Za-z0-9_\']+)', content)
		if found:
			current = found.group(1)
		if number >= line:
			break
	return current


def load_known():
	path = VERIF / 'known_findings.json'
	if not path.exists():
		return {}
	data = json.loads(path.read_text(encoding='utf8'))
	return {(e['property'], e['signature']): e for e in data.get('findings', [])}


COMMON_TRUSTED = [
	'Coq 8.16.1 kernel incl. vm_compute (no native_compute); coqc as checker',
	'correspondence harness (generators, canonicalisation, case printers) under /verif/harness; CPython 3.11 /usr/bin/python3',
	'harness shims for modules absent from the sandbox (sha3, ripemd, mnemonic, nacl.bindings, ply.lex, colorama)'
]
