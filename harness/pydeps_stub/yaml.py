"""Import-only stand-in for PyYAML, used solely when a check runs in-process under the baseline interpreter (/venv, no yaml) and has to
import catparser.__main__ for LarkMultiFileParser.  Nothing here can dump: the CLI itself is always run under /usr/bin/python3."""


class SafeDumper:
	def ignore_aliases(self, data):
		return True


def dump(*_args, **_kwargs):
	raise RuntimeError('yaml stub: dumping is not available in this interpreter')
