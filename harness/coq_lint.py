"""Scans the Coq sources for what the brief forbids: axioms in any spelling (including Variable/Hypothesis outside a section),
admitted proofs, switched-off kernel checks.  usage: /usr/bin/python3 -m harness.coq_lint [dir]  (exit 1 when something is found)"""
import re
import sys
from pathlib import Path

FORBIDDEN = re.compile(
	r'^\s*(?:Local\s+|Global\s+|#\[[^\]]*\]\s*)*(Axiom|Axioms|Parameter|Parameters|Conjecture|Conjectures|Admitted|Admit Obligations|Unset Guard Checking|Unset Positivity Checking|Unset Universe Checking)\b')
SECTION_ONLY = re.compile(r'^\s*(?:Local\s+)?(Variable|Variables|Hypothesis|Hypotheses|Context)\b')
TACTIC = re.compile(r'\b(admit|give_up)\b|bypass_check|type-in-type|impredicative-set')


def strip_comments(text):
	out, depth, i = [], 0, 0
	while i < len(text):
		if text.startswith('(*', i):
			depth += 1
			i += 2
		elif text.startswith('*)', i) and depth:
			depth -= 1
			i += 2
		else:
			if not depth or text[i] == '\n':
				out.append(text[i])
			i += 1
	return ''.join(out)


def scan(path):
	problems = []
	depth = 0
	for number, line in enumerate(strip_comments(path.read_text(encoding='utf8')).split('\n'), 1):
		if re.match(r'^\s*(Section|Module Type)\s', line):
			depth += 1
		elif re.match(r'^\s*End\s', line) and depth:
			depth -= 1
		match = FORBIDDEN.match(line)
		if match:
			problems.append((number, match.group(1)))
		if depth == 0 and SECTION_ONLY.match(line):
			problems.append((number, 'assumption outside a section'))
		if TACTIC.search(line):
			problems.append((number, TACTIC.search(line).group(0)))
	return problems


def main():
	root = Path(sys.argv[1] if len(sys.argv) > 1 else Path(__file__).resolve().parent.parent / 'coq')
	found = 0
	files = [p for p in sorted(root.rglob('*.v')) if 'Cases' not in p.parts]
	for path in files:
		for number, what in scan(path):
			print(f'{path}:{number}: {what}')
			found += 1
	print(f'{len(files)} files scanned, {found} problems')
	sys.exit(1 if found else 0)


if __name__ == '__main__':
	main()
