"""A NEM transfer whose message is 2^32 - 8 bytes long: every element of the buffer is a byte, the buffer decodes, and the decoded
value cannot be encoded again (the 4-byte message_envelope_size member would have to hold 2^32).  Needs about 10 GB of memory.

usage: python c01_reencode_4gib_nem.py   (symbolchain importable)
prints one line  RESULT decoded=<bool> reencoded=<bool> error=<exception type or ->  and, for the control (one byte fewer),
CONTROL reencoded=<bool> stable=<bool>"""
import sys
from symbolchain import nc

tx = nc.TransferTransactionV1()
tx.network = nc.NetworkType.TESTNET
message = nc.Message()
message.message_type = nc.MessageType.PLAIN
message.message = b'ab'
tx.message = message
small = bytes(tx.serialize())
assert bytes(nc.TransferTransactionV1.deserialize(small).serialize()) == small
# the Message is last: message_type(4) message_size(4) 'ab'
assert small[-2:] == b'ab' and small[-6:-2] == (2).to_bytes(4, 'little')


def attempt(length):
	data = bytearray(small[:-6])
	data += length.to_bytes(4, 'little')
	data += bytes(length)
	try:
		value = nc.TransferTransactionV1.deserialize(data)
	except Exception as ex:  # pylint: disable=broad-except
		return False, False, type(ex).__name__, False
	try:
		again = value.serialize()
	except Exception as ex:  # pylint: disable=broad-except
		return True, False, type(ex).__name__, False
	second = nc.TransferTransactionV1.deserialize(again)
	return True, True, '-', bytes(second.serialize()) == bytes(again)


decoded, reencoded, error, _ = attempt(2**32 - 8)   # envelope size 8 + n = 2^32
print(f'RESULT decoded={decoded} reencoded={reencoded} error={error}', flush=True)
decoded, reencoded, error, stable = attempt(2**32 - 9)
print(f'CONTROL reencoded={reencoded} stable={stable}', flush=True)
sys.exit(0)
