"""Evaluates a seeded property-breaking change against the checks, in a scratch worktree of /repo (never in /repo itself).

usage: /usr/bin/python3 -m harness.seeded eval <source dir with patch.diff, demo.py[, notes.md]> --id C08 --name C08-A [--checks C08,C13]

Confirms: demo passes on the clean tree, the patch applies, the 168 pinned tests pass with it, the demo fails with it; then runs the
named checks (quick tier) with VERIF_REPO/VERIF_WORK pointing at scratch copies and records what they report in
/verif/seeded/<name>/meta.json next to copies of patch.diff / demo.py / notes.md."""
import argparse
import json
import re
import shutil
import subprocess
import sys
import time
from pathlib import Path

VERIF = Path(__file__).resolve().parent.parent
REPO = Path('/repo')
PINNED = ['/venv/bin/python', '-m', 'pytest', '-q', '-p', 'no:cacheprovider', 'catbuffer/parser/tests']


def sh(cmd, cwd=None, env=None, timeout=3600):
	proc = subprocess.run(cmd, cwd=cwd, env=env, stdout=subprocess.PIPE, stderr=subprocess.STDOUT, text=True, timeout=timeout, check=False)
	return proc.returncode, proc.stdout


def evaluate(source, pid, name, checks, tier='quick'):
	source = Path(source)
	worktree = Path(f'/var/tmp/seedrun-{name}')
	work = Path(f'/var/tmp/seedrun-{name}-work')
	for path in (worktree, work):
		if path.exists():
			sh(['git', '-C', str(REPO), 'worktree', 'remove', '--force', str(path)])
			shutil.rmtree(path, ignore_errors=True)
	meta = {'property': pid, 'name': name, 'ran': [], 'started': time.strftime('%Y-%m-%dT%H:%M:%SZ', time.gmtime())}
	status, out = sh(['git', '-C', str(REPO), 'worktree', 'add', '--detach', str(worktree), 'HEAD'])
	if status != 0:
		raise RuntimeError(out)
	try:
		demo = source / 'demo.py'
		status, out = sh(['/usr/bin/python3', str(demo), str(worktree)], timeout=1800)
		meta['demo_on_clean_tree'] = {'exit': status, 'tail': out[-600:]}
		status, out = sh(['git', 'apply', '--whitespace=nowarn', str(source / 'patch.diff')], cwd=worktree)
		meta['patch_applies'] = status == 0
		if status != 0:
			meta['patch_error'] = out[-800:]
			return meta
		status, out = sh(PINNED, cwd=worktree, timeout=1800)
		meta['pinned_tests_with_patch'] = out.strip().split('\n')[-1]
		status, out = sh(['/usr/bin/python3', str(demo), str(worktree)], timeout=1800)
		meta['demo_with_patch'] = {'exit': status, 'tail': out[-1200:]}
		meta['confirmed'] = meta['demo_on_clean_tree']['exit'] == 0 and meta['demo_with_patch']['exit'] != 0 and ' passed' in meta['pinned_tests_with_patch'] \
			and 'failed' not in meta['pinned_tests_with_patch']
		import os
		env = dict(os.environ)
		env['VERIF_REPO'] = str(worktree)
		env['VERIF_WORK'] = str(work)
		env.setdefault('VERIF_COQ_FROM_HEAD', '1')
		for check in checks:
			start = time.time()
			status, out = sh(['/usr/bin/python3', str(VERIF / 'run.py'), 'check', check, '--tier', tier], cwd=VERIF, env=env, timeout=7200)
			violations = [line for line in out.split('\n') if line.startswith('VIOLATION')]
			summary = [line for line in out.split('\n') if re.match(r'^C\d+ (quick|thorough):', line)]
			replay_what = None
			for line in violations[:1]:
				match = re.search(r'replay=(\S+)', line)
				if match and Path(match.group(1)).exists():
					data = json.loads(Path(match.group(1)).read_text(encoding='utf8'))
					replay_what = (data.get('what') or str(data.get('no_longer_checks')))[:400]
			meta['ran'].append({
				'check': check, 'tier': tier, 'exit': status, 'seconds': round(time.time() - start),
				'violation_lines': len(violations), 'concrete_replay': any('no-failing-input-found' not in v for v in violations),
				'first_violation': violations[0] if violations else None, 'first_replay_says': replay_what,
				'summary': summary[-1] if summary else out[-300:]})
		meta['detected_by'] = [r['check'] for r in meta['ran'] if r['exit'] == 1 and r['violation_lines']]
	finally:
		sh(['git', '-C', str(REPO), 'worktree', 'remove', '--force', str(worktree)])
		shutil.rmtree(worktree, ignore_errors=True)
		shutil.rmtree(work, ignore_errors=True)
	return meta


def main():
	parser = argparse.ArgumentParser()
	sub = parser.add_subparsers(dest='cmd', required=True)
	ev = sub.add_parser('eval')
	ev.add_argument('source')
	ev.add_argument('--id', required=True)
	ev.add_argument('--name', required=True)
	ev.add_argument('--checks')
	ev.add_argument('--tier', default='quick')
	ev.add_argument('--needs', default='')
	args = parser.parse_args()
	checks = args.checks.split(',') if args.checks else [args.id]
	meta = evaluate(args.source, args.id, args.name, checks, args.tier)
	target = VERIF / 'seeded' / args.name
	target.mkdir(parents=True, exist_ok=True)
	for item in ('patch.diff', 'demo.py', 'notes.md'):
		if (Path(args.source) / item).exists() and (Path(args.source) / item).resolve() != (target / item).resolve():
			shutil.copy(Path(args.source) / item, target / item)
	meta['breaks_property'] = args.id
	meta['needs_to_manifest'] = args.needs or '(see notes.md)'
	meta['what_was_run'] = 'harness/seeded.py eval: demo on clean worktree, git apply, pinned 168 tests, demo with patch, then the listed checks ' \
		'with VERIF_REPO=<scratch worktree> VERIF_WORK=<scratch build dir>; worktree removed afterwards'
	(target / 'meta.json').write_text(json.dumps(meta, indent=1) + '\n', encoding='utf8')
	print(json.dumps({k: meta.get(k) for k in ('name', 'confirmed', 'detected_by')}))
	for run in meta['ran']:
		print(' ', run['check'], 'exit', run['exit'], run['summary'], '|', run['first_violation'])
	return 0


if __name__ == '__main__':
	sys.exit(main())
