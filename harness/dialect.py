"""C15: random schemas written in the dialect the shipped CATS schemas use -- CATS text out.

`generate(rng, index)` returns a `Schema` (text, construct counters, number of declarations).  Only RECOMBINATIONS of the member
forms that occur in the two expanded shipped schema sets (symbol/all_generated.cats, nem/all_generated.cats) are produced, with fresh
names, widths, orders and nesting; see `dialect` for the list of restrictions and the code location forcing each."""
import keyword


def dialect():
	"""What "the dialect the shipped schemas use" was taken to mean.  Every restriction is forced by the cited code:

	 1. aliases are `uintN` or `binary_fixed(n)`, never signed: PodTypeFormatter.get_ctor_descriptor emits
	    `super().__init__(self.SIZE, x, Tag)` without `signed`, so BaseValue range-checks a signed alias as unsigned
	    (sdk/python/generator/PodTypeFormatter.py get_ctor_descriptor; symbolchain/BaseValue.py __init__).
	 2. enums are over uint8/16/32 with distinct values; @is_bitwise enums have power-of-two members (optionally a zero member):
	    EnumTypeFormatter emits `Enum`/`Flag` classes, equal values would become Python aliases (EnumTypeFormatter.get_fields).
	 3. a type is declared before every by-value use; struct constants `X = make_const(EnumT, NAME)` are evaluated when the class body
	    runs, children name `Parent.TYPE_HINTS` and the base class (StructFormatter.generate_class_field / generate_type_hints /
	    get_base_class), so enum, parent and member types precede their users.
	 4. the member bound by `@size(size)` is literally named `size`, is the first member and is an unsigned int: the deserializer only
	    defines `size_` for a member of that name, `filter_size_if_first` drops exactly that name and the serializer writes
	    `self.size.to_bytes(.., signed=False)` for the first member (StructFormatter.get_deserialize_descriptor, filter_size_if_first,
	    generate_serialize_fields).  No other member is called `size` (inline templates for NAMED inlines may, the prefix renames it).
	 5. abstract parents are one level deep; children start (after their constants) with `inline Parent`; the const that initialises a
	    discriminator member is paired with it BY NAME SUFFIX (`PFX_TYPE`/`type`), and NO other member name is a suffix of a lower-cased
	    const name (StructFormatter.get_paired_const_field: `const_field.name.lower().endswith(field.name)`); the `@initializes`
	    attributes name the same pairs (generators/util.build_factory_map reads the factory key from them); discriminator tuples are
	    unique within a family (FactoryFormatter builds a dict).
	 6. counted arrays: elements are aliases, enums or structs (arrays of wider ints have no printer path: TypedArrayPrinter.load uses
	    `element_type.deserialize`); the count member is an unsigned int declared before the array and binds one array
	    (util._bind_size_fields keeps one bound_field per member).
	 7. the byte-size member of an `@is_byte_constrained` array is not named `*_count` (StructFormatter.generate_serialize_field writes
	    `len(array)` for a `_count` name and the byte size otherwise); such arrays carry `@alignment` and hold an abstract parent
	    (TypedArrayPrinter.is_variable_size requires byte-constrained-or-abstract AND alignment; otherwise read and advancement disagree).
	 8. `array(Parent, __FILL__)` carries @alignment and is the last member of a child of ANOTHER size-prefixed parent;
	    `array(PlainStruct, __FILL__)` is the last member of a child of a size-prefixed parent: a fill read consumes the window
	    (ArrayHelpers.read_array / read_variable_size_elements until the view is empty).
	 9. a struct that holds an array of an @is_aligned struct is itself aligned (own or inherited @is_aligned) unless no child of that
	    element type has an array member: util._process_struct marks the element `requires_unaligned` and util._propagate_unaligned
	    raises RuntimeError('array field not handled') for a marked child with an array (the shipped `receipts` case has none).
	10. `sizeof(uintN, member)`: the member's struct carries @is_size_implicit (AstValidator._validate_sizeof) and the sizeof member
	    precedes it (the read is `T.deserialize(buffer[:that_size])`, StructFormatter.generate_deserialize_field); an abstract parent
	    without @size is only embedded this way (its `_deserialize` takes `len(buffer)` as the window).
	11. conditionals come in the three shipped styles only: (a) `@sizeref(m, delta)` uintN member followed by struct member
	    `m = T if 0 not equals that_size`; (b) byte array guarded by its own size member `if <all-ones> not equals name_size`
	    (generate_serialize_field's inline `is not None` hack, generate_condition's truthiness hack); (c) union arms
	    `x = T if NAME equals later_enum_member`: all arms the same size and ADJACENT (they occupy the same bytes: a single dummy read fills
	    one temporary buffer, get_deserialize_descriptor, while serialize writes the chosen arm at its own position), the enum member after
	    the arms, one arm per enum value.
	12. sort keys: `@sort_key(k)` on a counted struct array, k an alias-typed member or a struct member whose struct has @comparer over
	    enum / alias members, `!ripemd_keccak_256` only on binary_fixed members (TypedArrayPrinter._get_sort_accessor,
	    StructFormatter.get_comparer_descriptor uses `.bytes`).
	13. names: members are lower snake of >= 2 characters (grammar PROPERTY_NAME), type names `Xx..` (USER_TYPE_NAME); Python keywords,
	    the generated methods' own locals and attributes (buffer, payload, instance, size, sort, serialize, ...) are avoided;
	    `type` and `property` are allowed (name_formatting.fix_name appends `_`) except as sort-key / comparer / condition members.
	15. members whose value is DERIVED from the size of other members (the @size member, sizeof, @sizeref, the byte size of an
	    @is_byte_constrained array) are uint32 or uint64, as in the shipped schemas: reads are lenient (`int.from_bytes(buffer[:n])` of an
	    exhausted view is 0, read_array_impl keeps decoding elements from an empty view), so a mutated count can decode to a value larger
	    than its input, which a narrower derived-size member cannot express on re-encode (OverflowError; seen with sizeof(uint16, ..)).
	14. NARROWED after findings (each is replayed by a fixed schema of PROBES and reported under c15:<name> while it fails): every child of an
	    abstract parent adds at least one member; every struct has at least one settable member; an abstract parent has no byte-array
	    member of its own; a sort key is not called `type`/`property`; no member is called like a local of the generated methods
	    (buffer, instance, payload, ...); the holder of an array of an @is_aligned parent is aligned when a child has an array (9)."""
	return dialect.__doc__


RESERVED_MEMBER_NAMES = set(keyword.kwlist) | set(getattr(keyword, 'softkwlist', [])) | {
	'size', 'sort', 'serialize', 'deserialize', 'comparer', 'to_json', 'buffer', 'instance', 'payload', 'self', 'cls', 'value', 'result',
	'mapping', 'parent', 'discriminator', 'bytes', 'len', 'int', 'list', 'map', 'str', 'sorted', 'hexlify', 'isinstance', 'hasattr',
	'window_start', 'window_end', 'size_', 'factory_class', 'entity_name', 'super', 'bool', 'type_', 'property_', 'element', 'elements'}
RESERVED_TYPE_NAMES = {
	'ArrayHelpers', 'BaseValue', 'ByteArray', 'Enum', 'Flag', 'List', 'TypeVar', 'StrBytes', 'None', 'True', 'False', 'Ordered'}

CONS = 'bcdfghjklmnprstvwz'
VOWELS = 'aeiou'

CONSTRUCTS = [
	'alias:int', 'alias:buffer', 'enum', 'enum:flags', 'struct:plain', 'struct:abstract', 'struct:inline', 'inline:unnamed', 'inline:named',
	'array:counted:alias', 'array:counted:enum', 'array:counted:struct', 'array:counted:abstract', 'array:bytes', 'array:byte-sized:aligned',
	'array:fill:aligned', 'array:fill:plain', 'struct:size-prefixed', 'member:sizeof', 'member:sizeof:abstract', 'member:sizeref',
	'member:reserved', 'member:const', 'cond:sizeref-struct', 'cond:sentinel-bytes', 'cond:union', 'factory', 'factory:no-size',
	'sort_key:alias', 'sort_key:comparer', 'count:named-_count', 'count:other-name', 'member:int:signed', 'member:struct', 'pad_last:not',
	'const:named-like-its-member']


class Schema:
	def __init__(self, text, constructs, declarations):
		self.text = text
		self.constructs = constructs
		self.declarations = declarations


class Line:
	"""One struct member: attribute lines + the member line."""

	def __init__(self, text, name=None, attrs=()):
		self.text = text
		self.name = name
		self.attrs = list(attrs)

	def render(self):
		return ''.join(f'\t{attr}\n' for attr in self.attrs) + f'\t{self.text}\n'


class StructInfo:
	def __init__(self, name):
		self.name = name
		self.size_implicit = False
		self.keys = []            # (member name, 'alias' | 'comparer')
		self.comparer = False
		self.aligned = False
		self.has_array = False
		self.aligned_elements = False


class Family:
	def __init__(self):
		self.name = None
		self.style = None          # 'symbol' | 'nem'
		self.prefix = None
		self.discriminators = []   # [(member, const, kind)] kind 'enum' | 'int'
		self.enum = None
		self.size_implicit = False
		self.children = []
		self.children_have_arrays = False
		self.plain_version = None
		self.used_keys = set()
		self.version_width = 1


class Builder:
	def __init__(self, rng):
		self.rng = rng
		self.used_types = set(RESERVED_TYPE_NAMES)
		self.used_members = set()
		self.const_lower = []
		self.decls = []            # text blocks
		self.constructs = {}
		self.int_aliases = []      # (name, size)
		self.buf_aliases = []      # (name, size)
		self.enums = []            # (name, size, [(NAME, value)], bitwise)
		self.structs = []          # StructInfo of plain structs usable by value
		self.named_templates = []  # (name, kind)
		self.families = []
		self.last_keyed = None
		self.small = False

	# -- bookkeeping
	def note(self, construct):
		assert construct in CONSTRUCTS, construct
		self.constructs[construct] = self.constructs.get(construct, 0) + 1

	def chance(self, numerator, denominator):
		return self.rng.randrange(denominator) < numerator

	def syllables(self, count):
		return ''.join(self.rng.choice(CONS) + self.rng.choice(VOWELS) + (self.rng.choice(CONS) if self.chance(1, 3) else '') for _ in range(count))

	def type_name(self, suffix=''):
		while True:
			name = ''.join(self.syllables(1).capitalize() for _ in range(self.rng.randrange(1, 4)))
			if self.chance(1, 6):
				name += str(self.rng.randrange(2, 300))
			name += suffix
			lowered = ''.join('_' + c.lower() if c.isupper() and i else c.lower() for i, c in enumerate(name))
			if name in self.used_types or name.endswith('Factory') or name.startswith('Embedded') or keyword.iskeyword(lowered) \
				or lowered in RESERVED_MEMBER_NAMES or len(name) < 2 or not name[1].islower():
				continue
			self.used_types.add(name)
			return name

	def member_ok(self, name):
		if name in self.used_members or name in RESERVED_MEMBER_NAMES or len(name) < 2:
			return False
		return not any(const.endswith(name) for const in self.const_lower)

	def member_name(self, suffix='', allow_special=True):
		while True:
			if allow_special and not suffix and self.chance(1, 25):
				name = self.rng.choice(['type', 'property'])
			else:
				name = '_'.join(self.syllables(self.rng.randrange(1, 3)) for _ in range(self.rng.randrange(1, 3)))
				if self.chance(1, 8):
					name += str(self.rng.randrange(1, 10))
				name += suffix
			if not self.member_ok(name) or not self.member_ok(name + '_size') and suffix == '':
				continue
			self.used_members.add(name)
			return name

	def const_name(self):
		while True:
			name = '_'.join(self.syllables(self.rng.randrange(1, 3)).upper() for _ in range(self.rng.randrange(1, 3)))
			if len(name) >= 2:
				return name

	def number(self, value):
		return f'0x{value:0{self.rng.choice([1, 2, 4, 8])}X}' if self.chance(1, 2) else str(value)

	def uint(self, sizes=(1, 2, 4, 8)):
		return f'uint{8 * self.rng.choice(sizes)}'

	def emit(self, text):
		self.decls.append(text)

	# -- base types
	def add_int_alias(self, size=None):
		size = size or self.rng.choice([1, 2, 4, 8, 8, 4])
		name = self.type_name()
		self.emit(f'using {name} = uint{8 * size}\n')
		self.int_aliases.append((name, size))
		self.note('alias:int')
		return name

	def add_buf_alias(self, size=None):
		size = size or self.rng.choice([1, 2, 3, 4, 8, 16, 20, 24, 32, 32, 40, 64])
		name = self.type_name()
		self.emit(f'using {name} = binary_fixed({self.number(size)})\n')
		self.buf_aliases.append((name, size))
		self.note('alias:buffer')
		return name

	def add_enum(self, count=None, bitwise=None, size=None):
		size = size or self.rng.choice([1, 2, 4])
		bitwise = self.chance(1, 4) if bitwise is None else bitwise
		count = count or self.rng.randrange(1, 6)
		names = []
		while len(names) < count:
			name = self.const_name()
			if name not in names:
				names.append(name)
		if bitwise:
			bits = self.rng.sample(range(8 * size), min(count, 8 * size))
			values = sorted(1 << bit for bit in bits)
			if self.chance(1, 3) and len(values) > 1:
				values = [0] + values[1:]
		else:
			values = sorted(self.rng.sample(range(0, 1 << (8 * size)), count)) if self.chance(1, 2) else \
				sorted(self.rng.sample(range(0, min(1 << (8 * size), 300)), count))
		values = values[:len(names)]
		names = names[:len(values)]
		if self.chance(1, 3):
			pairs = list(zip(names, values))
			self.rng.shuffle(pairs)
		else:
			pairs = list(zip(names, values))
		name = self.type_name()
		text = ('@is_bitwise\n' if bitwise else '') + f'enum {name} : uint{8 * size}\n'
		for value_name, value in pairs:
			text += f'\t{value_name} = {self.number(value)}\n'
		self.emit(text)
		entry = (name, size, pairs, bitwise)
		self.enums.append(entry)
		self.note('enum:flags' if bitwise else 'enum')
		return entry

	def add_named_template(self):
		"""NEM style templates for named inlines: a size member + __value__."""
		name = self.type_name()
		kind = self.rng.choice(['reserved', 'bytes', 'bytes'])
		size_member = self.rng.choice(['size', 'size', self.syllables(1) + 'len'])
		if kind == 'reserved':
			alias, size = self.rng.choice(self.buf_aliases)
			width = self.rng.choice([1, 2, 4])
			if size >= 1 << (8 * width):
				width = 4
			body = f'\t{size_member} = make_reserved(uint{8 * width}, {self.number(size)})\n\t__value__ = {alias}\n'
			self.note('member:reserved')
		else:
			width = self.rng.choice([1, 2, 4, 4])
			body = f'\t{size_member} = uint{8 * width}\n\t__value__ = array({self.rng.choice(["int8", "uint8"])}, {size_member})\n'
			self.note('array:bytes')
		self.emit(f'inline struct {name}\n{body}')
		self.named_templates.append((name, kind, size_member))
		self.note('struct:inline')
		return name

	# -- member groups: each returns a list of Lines that must keep their relative order
	def g_int(self):
		signed = self.chance(1, 3)
		if signed:
			self.note('member:int:signed')
		return [Line(f'{self.member_name()} = {"" if signed else "u"}int{self.rng.choice([8, 16, 32, 64])}')]

	def g_alias(self, allow_special=True):
		name, _ = self.rng.choice(self.int_aliases + self.buf_aliases)
		member = self.member_name(allow_special=allow_special)
		return [Line(f'{member} = {name}', member)]

	def g_enum(self):
		name = self.rng.choice(self.enums)[0]
		return [Line(f'{self.member_name()} = {name}')]

	def g_reserved(self):
		width = self.rng.choice([1, 2, 4, 4, 8])
		value = self.rng.choice([0, 0, 1, 32, 40, (1 << (8 * width)) - 1, self.rng.randrange(1 << (8 * width))])
		self.note('member:reserved')
		return [Line(f'{self.member_name(f"_reserved_{self.rng.randrange(1, 4)}")} = make_reserved(uint{8 * width}, {self.number(value)})')]

	def g_bytes(self):
		member = self.member_name()
		width = self.rng.choice([1, 2, 4])
		self.used_members.add(f'{member}_size')
		self.note('array:bytes')
		return [Line(f'{member}_size = uint{8 * width}'), Line(f'{member} = array({self.rng.choice(["uint8", "int8"])}, {member}_size)')]

	def count_member(self, member):
		if self.chance(2, 3):
			self.note('count:named-_count')
			name = f'{member}_count'
			self.used_members.add(name)
			return name
		self.note('count:other-name')
		return self.member_name(self.rng.choice(['_num', '_total', '_len', '']), allow_special=False)

	def g_counted(self, kinds=('alias', 'enum', 'struct'), keyed_element=None):
		kind = self.rng.choice([k for k in kinds if k != 'struct' or self.structs])
		member = self.member_name(allow_special=False)
		count = self.count_member(member)
		attrs = []
		info = None
		if kind == 'alias':
			element = self.rng.choice(self.int_aliases + self.buf_aliases)[0]
		elif kind == 'enum':
			element = self.rng.choice(self.enums)[0]
		else:
			keyed = [s for s in self.structs if s.keys and not s.size_implicit]
			info = keyed_element or (self.rng.choice(keyed) if keyed and self.chance(1, 2) else self.rng.choice([s for s in self.structs if not s.size_implicit] or [None]))
			if info is None:
				element = self.rng.choice(self.int_aliases)[0]
				kind = 'alias'
			else:
				element = info.name
				if info.keys and (keyed_element or self.chance(3, 4)):
					key, key_kind = self.rng.choice(info.keys)
					attrs.append(f'@sort_key({key})')
					self.note(f'sort_key:{key_kind}')
		self.note(f'array:counted:{kind}')
		lines = [Line(f'{count} = uint{8 * self.rng.choice([1, 2, 4, 4, 8])}'), Line(f'{member} = array({element}, {count})', attrs=attrs)]
		lines[1].element = info
		return lines

	def g_named_inline(self, kinds=('reserved', 'bytes')):
		candidates = [template for template in self.named_templates if template[1] in kinds]
		if not candidates:
			return self.g_bytes() if 'bytes' in kinds else self.g_alias()
		template = self.rng.choice(candidates)
		member = self.member_name(allow_special=False)
		self.used_members.add(f'{member}_{template[2]}')
		self.note('inline:named')
		return [Line(f'{member} = inline {template[0]}')]

	def g_struct(self):
		candidates = [s for s in self.structs if not s.size_implicit]
		if not candidates:
			return self.g_alias()
		self.note('member:struct')
		line = Line(f'{self.member_name()} = {self.rng.choice(candidates).name}')
		return [line]

	def g_sizeof(self, target=None, abstract=False):
		if target is None:
			candidates = [s for s in self.structs if s.size_implicit]
			if not candidates:
				return self.g_int()
			target = self.rng.choice(candidates).name
		member = self.member_name(allow_special=False)
		self.used_members.add(f'{member}_size')
		self.note('member:sizeof:abstract' if abstract else 'member:sizeof')
		return [Line(f'{member}_size = sizeof(uint{self.rng.choice([32, 32, 32, 64])}, {member})'), Line(f'{member} = {target}', member)]

	def g_levy(self):
		candidates = [s for s in self.structs if not s.size_implicit]
		if not candidates:
			return self.g_int()
		member = self.member_name(allow_special=False)
		size_name = self.member_name('_size', allow_special=False)
		delta = self.rng.choice([0, 0, 0, 4, 8])
		self.note('member:sizeref')
		self.note('cond:sizeref-struct')
		return [
			Line(f'{size_name} = uint{self.rng.choice([32, 32, 64])}', attrs=[f'@sizeref({member}, {delta})']),
			Line(f'{member} = {self.rng.choice(candidates).name} if {self.number(0)} not equals {size_name}')]

	def g_optbytes(self):
		member = self.member_name(allow_special=False)
		width = self.rng.choice([2, 4, 4])
		self.used_members.add(f'{member}_size')
		self.note('cond:sentinel-bytes')
		self.note('array:bytes')
		sentinel = (1 << (8 * width)) - 1
		sentinel_text = f'0x{sentinel:X}' if self.chance(1, 2) else str(sentinel)
		return [
			Line(f'{member}_size = uint{8 * width}'),
			Line(f'{member} = array({self.rng.choice(["int8", "uint8"])}, {member}_size) if {sentinel_text} not equals {member}_size')]

	def g_union(self):
		arm_count = self.rng.choice([2, 2, 3])
		enum = self.add_enum(count=arm_count, bitwise=False)
		size = self.rng.choice([1, 2, 4, 8, 8])
		pool = [a for a in self.int_aliases if a[1] == size] + [b for b in self.buf_aliases if b[1] == size]
		while len(pool) < 2:
			pool.append((self.add_int_alias(size), size) if self.chance(2, 3) else (self.add_buf_alias(size), size))
		selector = self.member_name(allow_special=False)
		arms = []
		for value_name, _ in enum[2]:
			arms.append(f'{self.member_name(allow_special=False)} = {self.rng.choice(pool)[0]} if {value_name} equals {selector}')
		self.rng.shuffle(arms)
		# the arms occupy the same bytes (one dummy read): they stay adjacent; other members may sit between them and the selector
		lines = [Line('\n\t'.join(arms)), Line(f'{selector} = {enum[0]}')]
		self.note('cond:union')
		return lines

	def merge(self, groups):
		"""Random interleaving that keeps the order inside every group."""
		groups = [list(group) for group in groups if group]
		merged = []
		while groups:
			weights = [len(group) for group in groups]
			pick = self.rng.choices(range(len(groups)), weights)[0]
			merged.append(groups[pick].pop(0))
			if not groups[pick]:
				groups.pop(pick)
		return merged

	def random_groups(self, count, forms, force=()):
		table = {
			'int': self.g_int, 'alias': self.g_alias, 'enum': self.g_enum, 'reserved': self.g_reserved, 'bytes': self.g_bytes,
			'counted': self.g_counted, 'named_inline': self.g_named_inline, 'struct': self.g_struct, 'sizeof': self.g_sizeof,
			'levy': self.g_levy, 'optbytes': self.g_optbytes, 'union': self.g_union, 'key_alias': lambda: self.g_alias(False),
			'keyed': lambda: self.g_counted(('struct',), self.last_keyed),
			'named_inline_fixed': lambda: self.g_named_inline(('reserved',))}
		groups = [table[form]() for form in force]
		while len(groups) < count:
			groups.append(table[self.rng.choice(forms)]())
		return groups

	# -- declarations
	def struct_text(self, name, lines, attributes=(), modifier=''):
		text = ''.join(f'{attribute}\n' for attribute in attributes)
		text += f'{modifier + " " if modifier else ""}struct {name}\n'
		spaced = self.chance(1, 2)
		for index, line in enumerate(lines):
			text += line.render() if isinstance(line, Line) else f'\t{line}\n'
			if spaced and index + 1 < len(lines):
				text += '\n'
		return text

	def note_lines(self, info, lines):
		for line in lines:
			if ' array(' in line.text:
				info.has_array = True
				element = getattr(line, 'element', None)
				if element is not None and element.aligned:
					info.aligned_elements = True

	PLAIN_FORMS = ['int', 'int', 'alias', 'alias', 'alias', 'enum', 'enum', 'reserved', 'bytes', 'counted', 'counted', 'named_inline', 'struct',
		'struct', 'sizeof', 'levy', 'optbytes', 'union']

	def add_plain_struct(self, force=(), size_implicit=False, members=None, aligned=False):
		info = StructInfo(self.type_name())
		groups = self.random_groups(members or self.rng.randrange(1, 5), self.PLAIN_FORMS, force)
		if all(' = make_reserved(' in line.text for group in groups for line in group):
			groups.append(self.g_int())      # at least one settable member (see PROBES: struct-without-settable-members)
		lines = self.merge(groups)
		attributes = []
		if size_implicit:
			attributes.append('@is_size_implicit')
			info.size_implicit = True
		if aligned:
			attributes.append('@is_aligned')
			info.aligned = True
		for line in lines:
			if line.name and line.name not in ('type', 'property') and ' if ' not in line.text and ' = sizeof' not in line.text:
				target = line.text.split(' = ')[1]
				if any(target == alias for alias, _ in self.int_aliases + self.buf_aliases):
					info.keys.append((line.name, 'alias'))
				elif any(target == s.name and s.comparer for s in self.structs):
					info.keys.append((line.name, 'comparer'))
		self.note_lines(info, lines)
		self.emit(self.struct_text(info.name, lines, attributes))
		self.structs.append(info)
		self.note('struct:plain')
		return info

	def add_comparer_struct(self):
		"""NEM MultisigAccountModification style: @comparer over an enum/alias member and a transformed binary member."""
		info = StructInfo(self.type_name())
		enum_member = self.member_name(allow_special=False)
		key_member = self.member_name(allow_special=False)
		buffer_alias = self.rng.choice(self.buf_aliases)
		first = self.rng.choice(['enum', 'enum', 'alias'])
		first_type = self.rng.choice(self.enums)[0] if first == 'enum' else self.rng.choice(self.int_aliases + self.buf_aliases)[0]
		lines = [Line(f'{enum_member} = {first_type}')]
		if self.chance(1, 2):
			lines += self.g_reserved()
		lines.append(Line(f'{key_member} = {buffer_alias[0]}'))
		if self.chance(1, 2):
			lines += self.g_int()
		transform = '!ripemd_keccak_256' if self.chance(3, 4) else ''
		parts = [enum_member, f'{key_member}{transform}']
		if self.chance(1, 4):
			parts.reverse()
		size_implicit = self.chance(1, 2)
		attributes = (['@is_size_implicit'] if size_implicit else []) + [f'@comparer({", ".join(parts)})']
		if self.chance(1, 2):
			attributes.reverse()
		info.size_implicit = size_implicit
		info.comparer = True
		self.emit(self.struct_text(info.name, lines, attributes))
		self.structs.append(info)
		self.note('struct:plain')
		# wrapper whose member is the key (SizePrefixedMultisigAccountModification style when size-implicit)
		wrapper = StructInfo(self.type_name())
		if size_implicit:
			lines = self.g_sizeof(info.name)
		else:
			member = self.member_name(allow_special=False)
			lines = [Line(f'{member} = {info.name}', member)]
		wrapper.keys.append((lines[-1].name, 'comparer'))
		if self.chance(1, 2):
			lines = self.merge([lines, self.g_int()])
		self.emit(self.struct_text(wrapper.name, lines))
		self.structs.append(wrapper)
		self.note('struct:plain')
		return wrapper

	# -- families
	def plan_family(self, style):
		family = Family()
		family.style = style
		family.name = self.type_name()
		family.prefix = self.syllables(self.rng.randrange(1, 3)).upper()
		shape = self.rng.choice(['type+version', 'type+version', 'type', 'version+type'])
		while True:
			type_member = 'type' if self.chance(3, 4) else self.syllables(2)
			version_member = 'version' if self.chance(3, 4) else self.syllables(2) + 'ver'
			lowered = [f'{family.prefix}_{type_member}'.lower(), f'{family.prefix}_{version_member}'.lower()]
			# each discriminator member pairs with exactly its own constant (get_paired_const_field takes the first suffix match)
			if not lowered[1].endswith(type_member) and not lowered[0].endswith(version_member) and type_member != version_member \
				and type_member not in RESERVED_MEMBER_NAMES and version_member not in RESERVED_MEMBER_NAMES:
				break
		for member in (type_member, version_member):
			self.used_members.add(member)
		# the constant is named <OWNER>_<MEMBER> (shipped schemas) or exactly like the member it initialises (the spelling of the DSL
		# documentation, `@initializes(transport_mode, TRANSPORT_MODE)`)
		bare = self.chance(1, 4)

		def const_of(member):
			return member.upper() if bare else f'{family.prefix}_{member.upper()}'
		if bare:
			self.note('const:named-like-its-member')
		if shape == 'type':
			family.discriminators = [(type_member, const_of(type_member), 'enum')]
			family.plain_version = version_member if self.chance(2, 3) else None
		else:
			family.discriminators = [(type_member, const_of(type_member), 'enum'),
				(version_member, const_of(version_member), 'int')]
			if shape == 'version+type':
				family.discriminators.reverse()
		for _, const, _ in family.discriminators:
			self.const_lower.append(const.lower())
		self.families.append(family)
		return family

	def add_family(self, family, twin_of=None):
		"""Abstract parent + header templates + children."""
		rng = self.rng
		symbol = family.style == 'symbol'
		version_width = rng.choice([1, 1, 2])
		family.enum = twin_of.enum if twin_of else self.add_enum(count=rng.randrange(6, 9), bitwise=False, size=rng.choice([1, 2, 2, 4]))
		family.version_width = twin_of.version_width if twin_of else version_width
		disc_lines = {}
		for member, _, kind in family.discriminators:
			disc_lines[member] = Line(f'{member} = {family.enum[0]}' if kind == 'enum' else f'{member} = uint{8 * family.version_width}')
		if family.plain_version:
			disc_lines[family.plain_version] = Line(f'{family.plain_version} = uint{8 * rng.choice([1, 2])}')
		# header members, some of them through unnamed inline templates
		extra = self.random_groups(rng.randrange(1, 4), ['int', 'alias', 'alias', 'enum', 'reserved', 'reserved'] + (['named_inline_fixed'] if not symbol else []))
		members = self.merge(extra + [[line] for line in disc_lines.values()])
		header = []
		if symbol:
			size_line = Line(f'size = uint{rng.choice([32, 32, 32, 64])}')
			self.note('struct:size-prefixed')
			if self.chance(1, 4 if self.small else 2):
				template = self.type_name()
				self.emit(self.struct_text(template, [size_line], modifier='inline'))
				self.note('struct:inline')
				self.note('inline:unnamed')
				header.append(f'inline {template}')
			else:
				header.append(size_line)
		if len(members) >= 2 and self.chance(1 if self.small else 2, 3):
			cut = rng.randrange(1, len(members))
			template = self.type_name()
			front = self.chance(1, 2)
			self.emit(self.struct_text(template, members[:cut] if front else members[cut:], modifier='inline'))
			self.note('struct:inline')
			self.note('inline:unnamed')
			members = [f'inline {template}'] + members[cut:] if front else members[:cut] + [f'inline {template}']
		header += members
		attributes = []
		if symbol:
			attributes.append('@size(size)')
		for member, const, _ in family.discriminators:
			attributes.append(f'@initializes({member}, {const})')
		attributes.append('@discriminator(' + ', '.join(member for member, _, _ in family.discriminators) + ')')
		if symbol:
			attributes.append('@is_aligned')
		elif family.size_implicit:
			attributes.append('@is_size_implicit')
		if not symbol and self.chance(1, 2):
			rng.shuffle(attributes)
		self.emit(self.struct_text(family.name, header, attributes, modifier='abstract'))
		self.note('struct:abstract')
		self.note('factory' if symbol else 'factory:no-size')
		return family

	def child_consts(self, family, enum_value, version):
		lines = []
		for _, const, kind in family.discriminators:
			if kind == 'enum':
				lines.append(Line(f'{const} = make_const({family.enum[0]}, {enum_value})'))
			else:
				lines.append(Line(f'{const} = make_const(uint{8 * family.version_width}, {version})'))
			self.note('member:const')
		if self.chance(1, 3):
			lines.reverse()
		return lines

	def add_children(self, families, count, body_forms, force_bodies=(), tails=()):
		"""Children of one family or of twin families sharing inline bodies (Transaction/EmbeddedTransaction, Transaction/NonVerifiable)."""
		rng = self.rng
		main = families[0]
		used = main.used_keys
		made = []
		forced = list(force_bodies)
		tails = list(tails)
		for _ in range(count):
			while True:
				enum_value = rng.choice(main.enum[2])[0]
				version = rng.randrange(1, 4)
				key = (enum_value, version if len(main.discriminators) == 2 else 0)
				if key not in used:
					used.add(key)
					break
			force = forced.pop(0) if forced else ()
			tail = tails.pop(0) if tails else None
			groups = self.random_groups(max(len(force), rng.randrange(0 if tail else 1, 4)), body_forms, force)
			body = self.merge(groups)
			if tail:
				body = body + tail
			consts_in_body = main.style == 'nem' and self.chance(1, 2)
			consts = self.child_consts(main, enum_value, version)
			use_template = (len(families) > 1 or self.chance(1, 4 if self.small else 2)) and (body or consts_in_body)
			while True:
				# the first child's name is the base plus the version suffix: it has to be as fresh as every other type name
				base = self.type_name()
				if base + f'V{version}' not in self.used_types:
					self.used_types.add(base + f'V{version}')
					break
			if use_template:
				template = self.type_name('Body')
				self.emit(self.struct_text(template, (consts if consts_in_body else []) + body, modifier='inline'))
				self.note('struct:inline')
				self.note('inline:unnamed')
			for position, family in enumerate(families):
				name = base + f'V{version}' if position == 0 else self.type_name(f'V{version}')
				lines = [] if (consts_in_body and use_template) else list(consts)
				lines.append(f'inline {family.name}')
				self.note('inline:unnamed')
				if use_template:
					lines.append(f'inline {template}')
				else:
					lines += body
				attributes = ['@is_size_implicit'] if (family.style == 'nem' and not family.size_implicit and self.chance(1, 4)) else []
				self.emit(self.struct_text(name, lines, attributes))
				self.note('struct:plain')
				family.children.append(name)
				made.append((family, name, bool(attributes)))
			if any(' array(' in line.text for line in body if isinstance(line, Line)):
				for family in families:
					family.children_have_arrays = True
		return made


FEATURES = ['sort_alias', 'sort_comparer', 'sizeof', 'levy', 'optbytes', 'union', 'named_inline', 'symbol_family', 'nem_family', 'aggregate',
	'block', 'receipts', 'nem_inner', 'twin', 'flags']


def generate(rng, index):
	"""One dialect schema of 8..25 declarations.  `index` rotates the forced features so that a small batch still covers every construct."""
	import random
	best = None
	for attempt in range(40):
		schema = generate_once(random.Random(rng.getrandbits(64)), index, small=attempt >= 4, forced=4 if attempt < 12 else 3 if attempt < 24 else 2)
		if 8 <= schema.declarations <= 25:
			return schema
		if best is None or schema.declarations < best.declarations:
			best = schema
	return best


def generate_once(rng, index, small=False, forced=4):
	builder = Builder(rng)
	builder.small = small
	features = {FEATURES[(index * 4 + offset) % len(FEATURES)] for offset in range(forced)}
	if not small:
		features |= {feature for feature in FEATURES if rng.randrange(6) == 0}
	if 'aggregate' in features or 'block' in features or 'receipts' in features:
		features.add('symbol_family')
	if 'nem_inner' in features:
		features.add('nem_family')
	if 'twin' in features and not features & {'symbol_family', 'nem_family'}:
		features.add(rng.choice(['symbol_family', 'nem_family']))

	# family names / constants are fixed first: no member name may be a suffix of a lower-cased const name
	symbol_family = builder.plan_family('symbol') if 'symbol_family' in features else None
	symbol_twin = builder.plan_family('symbol') if symbol_family and ('aggregate' in features or ('twin' in features and rng.randrange(2))) else None
	outer_family = builder.plan_family('symbol') if 'block' in features else None
	nem_family = builder.plan_family('nem') if 'nem_family' in features else None
	nem_twin = builder.plan_family('nem') if nem_family and ('nem_inner' in features or ('twin' in features and not symbol_twin)) else None
	for family in (symbol_twin, nem_twin):
		if family is not None:
			main = symbol_family if family is symbol_twin else nem_family
			builder.const_lower = [c for c in builder.const_lower if c not in [const.lower() for _, const, _ in family.discriminators]]
			family.prefix = main.prefix
			family.discriminators = list(main.discriminators)
			family.plain_version = main.plain_version
	if nem_twin is not None:
		nem_twin.size_implicit = True

	for _ in range(2 if small else rng.randrange(2, 4)):
		builder.add_int_alias()
	for _ in range(1 if small else rng.randrange(1, 3)):
		builder.add_buf_alias()
	builder.add_enum(bitwise=False)
	if 'flags' in features or rng.randrange(2):
		builder.add_enum(bitwise=True)
	if 'named_inline' in features or 'nem_family' in features:
		for _ in range(1 if small else rng.randrange(1, 3)):
			builder.add_named_template()

	simple = ['int', 'alias', 'alias', 'enum', 'reserved', 'bytes', 'counted', 'named_inline']
	for _ in range(1 if small else rng.randrange(1, 3)):
		builder.add_plain_struct(force=[rng.choice(simple)])
	if 'sort_alias' in features:
		builder.last_keyed = builder.add_plain_struct(force=['key_alias', 'int'])
		assert builder.last_keyed.keys
		builder.add_plain_struct(force=['keyed'])
	if 'sort_comparer' in features:
		builder.last_keyed = builder.add_comparer_struct()
		builder.add_plain_struct(force=['keyed'])
	if 'sizeof' in features or 'levy' in features:
		builder.add_plain_struct(force=[rng.choice(['bytes', 'named_inline', 'counted', 'alias'])], size_implicit=True)
		builder.add_plain_struct(force=['sizeof'])
	if 'levy' in features:
		builder.add_plain_struct(force=['levy'], size_implicit=rng.randrange(2) == 1)
	if 'optbytes' in features and not nem_family:
		builder.add_plain_struct(force=['optbytes'])
	if 'union' in features and not symbol_family:
		# one union, or two unions with their own selectors in ONE struct (each needs its own dummy read and temporary buffer)
		builder.add_plain_struct(force=['union'])
		builder.add_plain_struct(force=['union', 'union'])
	for _ in range(0 if small else rng.randrange(0, 3)):
		builder.add_plain_struct()

	body_forms = ['int', 'alias', 'alias', 'enum', 'reserved', 'bytes', 'counted', 'struct', 'sizeof', 'levy', 'named_inline']

	if nem_family:
		force_bodies = []
		if 'optbytes' in features:
			force_bodies.append(['optbytes'])
		if 'union' in features and not symbol_family:
			force_bodies.append(['union'])
		builder.add_family(nem_family)
		if nem_twin:
			builder.add_family(nem_twin, twin_of=nem_family)
			nem_twin.used_keys = nem_family.used_keys
		families = [nem_family] + ([nem_twin] if nem_twin else [])
		count = 2 if small else rng.randrange(2, 4)
		made = builder.add_children(families, count, body_forms + ['optbytes'], force_bodies)
		if 'nem_inner' in features and nem_twin:
			# MultisigTransactionV1 style: a child embeds the size-implicit twin family through sizeof (the twin's own children may recurse once)
			inner = builder.g_sizeof(nem_twin.name, abstract=True)
			tail = builder.g_counted() if rng.randrange(2) else []
			builder.add_children([nem_family, nem_twin] if rng.randrange(2) else [nem_family], 1, body_forms, force_bodies=[()], tails=[inner + tail])
		implicit_children = [name for family, name, implicit in made if implicit]
		if implicit_children and rng.randrange(2):
			# SizePrefixedCosignatureV1 style: a concrete size-implicit child behind a sizeof member
			info = StructInfo(builder.type_name())
			builder.emit(builder.struct_text(info.name, builder.g_sizeof(rng.choice(implicit_children))))
			builder.structs.append(info)
			builder.note('struct:plain')

	if symbol_family:
		# receipts style needs children without arrays when the holder is not aligned (restriction 9)
		receipts_unaligned = 'receipts' in features and rng.randrange(2) == 0
		forms = [form for form in body_forms if form not in ('bytes', 'counted', 'named_inline')] if receipts_unaligned else body_forms + ['union', 'optbytes']
		# element structs of arrays in children of an aligned family must not be aligned-in-unaligned (children are aligned by inheritance)
		builder.add_family(symbol_family)
		if symbol_twin:
			builder.add_family(symbol_twin, twin_of=symbol_family)
			symbol_twin.used_keys = symbol_family.used_keys
		families = [symbol_family] + ([symbol_twin] if symbol_twin else [])
		force_bodies = [['union']] if 'union' in features and not receipts_unaligned else []
		builder.add_children(families, 2 if small else rng.randrange(2, 4), forms, force_bodies)
		element_family = symbol_twin or symbol_family
		if 'aggregate' in features:
			# AggregateTransactionBody style: byte-sized aligned array of an abstract parent, then (optionally) a fill array of a plain struct
			fill_struct = builder.add_plain_struct(force=[rng.choice(['alias', 'int', 'bytes', 'struct'])], aligned=rng.randrange(2) == 1, members=rng.randrange(1, 4))
			member = builder.member_name(allow_special=False)
			size_name = builder.member_name(rng.choice(['_size', '_bytes', '_length']), allow_special=False)
			alignment = rng.choice([8, 8, 8, 4, 16])
			pad = rng.choice(['', '', ', not pad_last'])
			if pad:
				builder.note('pad_last:not')
			lines = [Line(f'{size_name} = uint{rng.choice([32, 32, 64])}')]
			if rng.randrange(2):
				lines += builder.g_reserved()
			lines.append(Line(f'{member} = array({element_family.name}, {size_name})', attrs=['@is_byte_constrained', f'@alignment({alignment}{pad})']))
			builder.note('array:byte-sized:aligned')
			host_family = symbol_family
			tail = list(lines)
			if rng.randrange(3):
				tail.append(Line(f'{builder.member_name(allow_special=False)} = array({fill_struct.name}, __FILL__)'))
				builder.note('array:fill:plain')
			if not receipts_unaligned:
				builder.add_children([host_family], 1, forms, force_bodies=[()], tails=[tail])
			else:
				# aligned plain holder (Cosignature style @is_aligned struct) for the byte-sized array
				info = StructInfo(builder.type_name())
				info.aligned = True
				builder.emit(builder.struct_text(info.name, lines, ['@is_aligned']))
				builder.structs.append(info)
				builder.note('struct:plain')
		if 'block' in features and outer_family:
			builder.add_family(outer_family)
			member = builder.member_name(allow_special=False)
			alignment = rng.choice([8, 8, 4])
			pad = rng.choice([', not pad_last', ', not pad_last', ''])
			if pad:
				builder.note('pad_last:not')
			builder.note('array:fill:aligned')
			count = 1 if small else rng.randrange(1, 3)
			tails = []
			for position in range(count):
				name = member if position == 0 else builder.member_name(allow_special=False)
				tails.append([Line(f'{name} = array({symbol_family.name}, __FILL__)', attrs=[f'@alignment({alignment}{pad})'])])
			builder.add_children([outer_family], count, forms, force_bodies=[()] * count, tails=tails)
		if 'receipts' in features:
			member = builder.member_name(allow_special=False)
			count_name = builder.count_member(member)
			lines = builder.merge([
				[Line(f'{count_name} = uint{rng.choice([8, 16, 32])}'), Line(f'{member} = array({symbol_family.name}, {count_name})')],
				builder.g_alias()])
			builder.note('array:counted:abstract')
			info = StructInfo(builder.type_name())
			builder.emit(builder.struct_text(info.name, lines, [] if receipts_unaligned else ['@is_aligned']))
			builder.structs.append(info)
			builder.note('struct:plain')
			if rng.randrange(2):
				# BlockStatement style: counted array of the holder
				builder.add_plain_struct(force=['counted'])

	while len(builder.decls) < 8:
		builder.add_plain_struct()
	text = '\n'.join(builder.decls)
	return Schema(text, builder.constructs, len(builder.decls))


# Fixed minimal schemas built ONLY from constructs of the shipped dialect on which the generator (or the module it emits) breaks the laws.
# The random generator above is narrowed so that it does not hit them (each narrowing is marked where it is made); every run replays them
# through the same pipeline and reports a failing one under the stable signature c15:<name>.
PROBES = [
	('child-without-own-members',
		'a child of an abstract parent that adds no member of its own: StructFormatter.generate_serialize_fields calls next() on an empty iterator '
		'(StopIteration, the CLI exits 1 and writes a truncated module)',
		'''enum Kind : uint8
	ALPHA = 1
	BETA = 2

@size(size)
@initializes(type, ENTITY_TYPE)
@discriminator(type)
abstract struct Entity
	size = uint32
	type = Kind

struct AlphaEntity
	ENTITY_TYPE = make_const(Kind, ALPHA)
	inline Entity

struct BetaEntity
	ENTITY_TYPE = make_const(Kind, BETA)
	inline Entity
	extra = uint16
'''),
	('factory-header-byte-array',
		'an abstract parent whose own members include a byte array: <Parent>Factory.deserialize passes `bytes(payload)` (not a memoryview) to '
		'Parent._deserialize, and ArrayHelpers.get_bytes calls .tobytes() on it (AttributeError for every input; the child\'s own deserialize works)',
		'''enum Kind : uint8
	ALPHA = 1

@initializes(type, ENTITY_TYPE)
@discriminator(type)
abstract struct Entity
	type = Kind
	name_size = uint8
	name = array(uint8, name_size)

struct AlphaEntity
	ENTITY_TYPE = make_const(Kind, ALPHA)
	inline Entity
	extra = uint16
'''),
	('struct-without-settable-members',
		'a struct all of whose members are reserved: filter_size_if_first dereferences next(fields_iter, None) (AttributeError, the CLI exits 1)',
		'''struct Padding
	padding_reserved_1 = make_reserved(uint32, 0)
'''),
	('sort-key-member-named-type',
		'a sort key member called `type` (allowed: name_formatting.fix_name renames the property to `type_`): TypedArrayPrinter._get_sort_accessor '
		'emits `e.type`, which does not exist (AttributeError on every serialize / deserialize of the keyed array)',
		'''using Amount = uint64

struct Entry
	type = Amount
	weight = uint8

struct Table
	entries_count = uint8
	@sort_key(type)
	entries = array(Entry, entries_count)
'''),
	('member-named-buffer',
		'a member called `buffer`: the generated deserialize keeps its cursor in a local of that name and the member\'s local overwrites it '
		'(TypeError on every input)',
		'''using Amount = uint64

struct Entry
	buffer = Amount
	weight = uint8
'''),
	('member-named-instance',
		'a member called `instance`: the generated deserialize keeps the object under construction in a local of that name; the member\'s local '
		'replaces it and deserialize RETURNS THE MEMBER VALUE (an Amount) instead of the struct, silently',
		'''using Amount = uint64

struct Entry
	instance = Amount
	payload = uint8
'''),
	('unaligned-holder-of-aligned-family-with-array-children',
		'a non-aligned struct holding a counted array of an @is_aligned abstract parent (the shipped `receipts` form) while a child of that parent '
		'has an array member (the shipped aggregate / transfer form): util._propagate_unaligned raises RuntimeError("array field not handled")',
		'''enum Kind : uint8
	ALPHA = 1

@size(size)
@initializes(type, ENTITY_TYPE)
@discriminator(type)
@is_aligned
abstract struct Entity
	size = uint32
	type = Kind

struct AlphaEntity
	ENTITY_TYPE = make_const(Kind, ALPHA)
	inline Entity
	note_size = uint8
	note = array(uint8, note_size)

struct Statement
	entities_count = uint8
	entities = array(Entity, entities_count)
'''),
]
