"""Shared by the C07 / C14 checks: the zarith-extracted executable model (/verif/ocaml/ed), the vm_compute cross-check of the
extraction, the list of extraction directives (trusted base) and an independent reference Ed25519 (RFC 8032 section 6 sample code,
parametric in the hash) used only by the property oracles."""
import fcntl
import hashlib
import os
import re
import subprocess
from concurrent.futures import ThreadPoolExecutor
from pathlib import Path

from . import common
from .common import COQ, NCPU, VERIF, WORK, blit, coq_eval

OCAML = VERIF / 'ocaml'
BIN_DIR = (WORK / 'ocaml' / 'bin') if WORK != VERIF else (OCAML / 'bin')
BUILD_DIR = (WORK / 'ocaml' / '_build') if WORK != VERIF else (OCAML / '_build')
BINARY = BIN_DIR / 'ed'
MODEL_SOURCES = ['Sym/EdRun.vo', 'Sym/EdZ.vo', 'Sym/EdAbstract.vo', 'Sym/Payload.vo', 'Sym/MessageFraming.vo', 'Sym/Keccak.vo', 'Sym/Sha2.vo', 'Sym/Hmac.vo']


class ModelUnavailable(RuntimeError):
	pass


def ensure_binary():
	"""(Re)builds the extracted driver when a model .vo or a driver source is newer than the binary."""
	ok, out = common.coq_make(target='Sym/EdRun.vo')    # Check.prove builds only what the theorem file needs
	if not ok:
		raise ModelUnavailable(f'the executable model does not compile:\n{out[-2000:]}')
	sources = [COQ / name for name in MODEL_SOURCES] + [OCAML / 'ed' / name for name in ('extract.v', 'main.ml', 'build.sh')]
	missing = [str(path) for path in sources if not path.exists()]
	if missing:
		raise ModelUnavailable(f'model libraries not built: {missing}')
	BIN_DIR.mkdir(parents=True, exist_ok=True)
	BUILD_DIR.mkdir(parents=True, exist_ok=True)
	with open(BUILD_DIR / '.ed.lock', 'w', encoding='utf8') as handle:
		fcntl.flock(handle, fcntl.LOCK_EX)
		try:
			newest = max(path.stat().st_mtime for path in sources)
			if BINARY.exists() and BINARY.stat().st_mtime >= newest:
				return BINARY
			env = dict(os.environ, VERIF_COQ=str(COQ), VERIF_OCAML_BIN=str(BIN_DIR), VERIF_OCAML_BUILD=str(BUILD_DIR))
			status, out = common.run(['sh', str(OCAML / 'ed' / 'build.sh')], 900, env=env)
			if status != 0 or not BINARY.exists():
				raise ModelUnavailable(f'building the extracted model failed:\n{out[-3000:]}')
			return BINARY
		finally:
			fcntl.flock(handle, fcntl.LOCK_UN)


def hexarg(data):
	return data.hex() if data else '-'


def query(requests, chunk=400):
	"""Sends request lines to the extracted driver (in parallel chunks); returns one answer per request."""
	if not requests:
		return []
	binary = str(ensure_binary())

	def work(lines):
		proc = subprocess.run([binary], input='\n'.join(lines) + '\n', stdout=subprocess.PIPE, stderr=subprocess.PIPE, text=True, timeout=3000, check=False)
		answers = proc.stdout.split('\n')[:-1]
		if proc.returncode != 0 or len(answers) != len(lines):
			raise ModelUnavailable(f'extracted model: status {proc.returncode}, {len(answers)} answers for {len(lines)} requests: {proc.stderr[-500:]}')
		return answers

	chunks = [requests[i:i + chunk] for i in range(0, len(requests), chunk)]
	with ThreadPoolExecutor(max_workers=NCPU) as pool:
		results = list(pool.map(work, chunks))
	answers = [answer for part in results for answer in part]
	bad = [(req, ans) for req, ans in zip(requests, answers) if ans.startswith('error:')]
	if bad:
		raise ModelUnavailable(f'extracted model refused a request: {bad[0]}')
	return answers


# ---------------------------------------------------------------------------------------------------------------------
# cross-check of the extraction: the same requests evaluated by vm_compute inside Coq

CROSS_IMPORTS = 'From Symv Require Import Base.Bytes Base.PyOps Sym.Keccak Sym.Sha2 Sym.Hmac Sym.EdZ Sym.EdRun.'


def coq_expr(request):
	"""Gallina expression (of type string) computing the answer to a driver request."""
	words = request.split()
	arg = lambda text: blit(b'' if text == '-' else bytes.fromhex(text))  # noqa: E731
	if words[0] == 'pub':
		return f'to_hex ({words[1]}_public_key {arg(words[2])})'
	if words[0] == 'sign':
		return f'to_hex ({words[1]}_sign {arg(words[2])} {arg(words[3])})'
	if words[0] == 'verify':
		return f'render_verdict ({words[1]}_verify {arg(words[2])} {arg(words[3])} {arg(words[4])})'
	if words[0] == 'shared':
		return f'render_shared ({words[1]}_shared_key {arg(words[2])} {arg(words[3])})'
	if words[0] == 'hash':
		name = {'sha512': 'sha512', 'sha256': 'sha256', 'keccak512': 'keccak_512', 'keccak256': 'keccak_256', 'sha3_256': 'sha3_256'}[words[1]]
		return f'to_hex ({name} {arg(words[2])})'
	if words[0] == 'payload' and words[1] == 'sym':
		return f'run_sym_payload {arg(words[2])} {arg(words[3])}'
	if words[0] == 'payload' and words[1] == 'nem':
		return f'run_nem_payload {arg(words[2])}'
	if words[0] == 'symdecode':
		flag = lambda text: 'true' if text == '1' else 'false'  # noqa: E731
		return f'run_sym_try_decode {flag(words[1])} {flag(words[2])} {arg(words[3])} {arg(words[4])} {arg(words[5])}'
	raise ValueError(request)


def cross_check(check, requests, tag):
	"""Evaluates the requests by vm_compute (one shard each, in parallel) and by the extracted binary; reports differences."""
	extracted = query(requests)
	inside = coq_eval(CROSS_IMPORTS, [coq_expr(request) for request in requests], tag, shard=1, timeout=900)
	for request, a, b in zip(requests, extracted, inside):
		check.case('extraction-cross-check:' + request.split()[0], request)
		if a != b:
			check.disagree('extracted-binary-vs-vm_compute', request, a, b)
	return len(requests)


# ---------------------------------------------------------------------------------------------------------------------
# extraction directives (trusted base)

OWN_DIRECTIVES_FILE = OCAML / 'ed' / 'extract.v'


def _sentences(text):
	"""Splits Coq source into sentences (strings and nested comments respected, comments outside strings dropped) and keeps the
	Extract / Extraction ones verbatim (whitespace normalised)."""
	sentences, current, depth, in_string, i = [], [], 0, False, 0
	while i < len(text):
		ch = text[i]
		if in_string:
			current.append(ch)
			if ch == '"':
				if text[i + 1:i + 2] == '"':
					current.append('"')
					i += 1
				else:
					in_string = False
		elif depth:
			if text.startswith('(*', i):
				depth += 1
				i += 1
			elif text.startswith('*)', i):
				depth -= 1
				i += 1
		elif text.startswith('(*', i):
			depth = 1
			i += 1
		elif ch == '"':
			in_string = True
			current.append(ch)
		elif ch == '.' and (i + 1 == len(text) or text[i + 1] in ' \t\r\n'):
			current.append(ch)
			sentences.append(' '.join(''.join(current).split()))
			current = []
		else:
			current.append(ch)
		i += 1
	return [s for s in sentences if re.match(r'(Extract|Extraction)\b', s) and s != 'Extraction.']


def extraction_directives():
	"""Every Extract/Extraction sentence brought in by ExtrOcamlBasic, ExtrOcamlZBigInt, ExtrOcamlString (which loads ExtrOcamlChar)
	and by ocaml/ed/extract.v, verbatim."""
	_status, where = common.run(['coqc', '-where'], 60)
	base = Path(where.strip()) / 'theories' / 'extraction'
	result = []
	for name in ('ExtrOcamlBasic.v', 'ExtrOcamlZBigInt.v', 'ExtrOcamlChar.v', 'ExtrOcamlString.v'):
		path = base / name
		sentences = _sentences(path.read_text(encoding='utf8')) if path.exists() else ['(library source not found)']
		result.append(f'{name}: ' + ' '.join(sentences))
	own = _sentences(OWN_DIRECTIVES_FILE.read_text(encoding='utf8'))
	result.append('ocaml/ed/extract.v (this development): ' + ' '.join(own))
	return result


# ---------------------------------------------------------------------------------------------------------------------
# reference: RFC 8032 section 6 sample code, with the hash as a parameter (used by the oracles only)

RP = 2 ** 255 - 19
RL = 2 ** 252 + 27742317777372353535851937790883648493
RD = -121665 * pow(121666, RP - 2, RP) % RP
RSQRTM1 = pow(2, (RP - 1) // 4, RP)


def r_point_add(p, q):
	a, b = (p[1] - p[0]) * (q[1] - q[0]) % RP, (p[1] + p[0]) * (q[1] + q[0]) % RP
	c, d = 2 * p[3] * q[3] * RD % RP, 2 * p[2] * q[2] % RP
	e, f, g, h = b - a, d - c, d + c, b + a
	return (e * f, g * h, f * g, e * h)


def r_point_mul(s, p):
	q = (0, 1, 1, 0)
	while s > 0:
		if s & 1:
			q = r_point_add(q, p)
		p = r_point_add(p, p)
		s >>= 1
	return q


def r_point_equal(p, q):
	return (p[0] * q[2] - q[0] * p[2]) % RP == 0 and (p[1] * q[2] - q[1] * p[2]) % RP == 0


def r_recover_x(y, sign):
	if y >= RP:
		return None
	x2 = (y * y - 1) * pow(RD * y * y + 1, RP - 2, RP)
	if x2 == 0:
		return None if sign else 0
	x = pow(x2, (RP + 3) // 8, RP)
	if (x * x - x2) % RP != 0:
		x = x * RSQRTM1 % RP
	if (x * x - x2) % RP != 0:
		return None
	if (x & 1) != sign:
		x = RP - x
	return x


RGY = 4 * pow(5, RP - 2, RP) % RP
RGX = r_recover_x(RGY, 0)
RG = (RGX, RGY, 1, RGX * RGY % RP)


def r_point_compress(p):
	zinv = pow(p[2], RP - 2, RP)
	x, y = p[0] * zinv % RP, p[1] * zinv % RP
	return int.to_bytes(y | ((x & 1) << 255), 32, 'little')


def r_point_decompress(s):
	if len(s) != 32:
		return None
	y = int.from_bytes(s, 'little')
	sign = y >> 255
	y &= (1 << 255) - 1
	x = r_recover_x(y, sign)
	return None if x is None else (x, y, 1, x * y % RP)


def r_secret_expand(hasher, secret):
	h = hasher(secret)
	a = int.from_bytes(h[:32], 'little')
	a &= (1 << 254) - 8
	a |= (1 << 254)
	return a, h[32:]


def r_public(hasher, secret):
	a, _ = r_secret_expand(hasher, secret)
	return r_point_compress(r_point_mul(a, RG))


def r_sign(hasher, secret, msg):
	a, prefix = r_secret_expand(hasher, secret)
	big_a = r_point_compress(r_point_mul(a, RG))
	r = int.from_bytes(hasher(prefix + msg), 'little') % RL
	big_r = r_point_compress(r_point_mul(r, RG))
	h = int.from_bytes(hasher(big_r + big_a + msg), 'little') % RL
	return big_r + int.to_bytes((r + h * a) % RL, 32, 'little')


def r_verify(hasher, public, msg, signature):
	"""RFC 8032 section 6 verify (S must be below L, A and R must decode canonically, [S]B = R + [h]A)."""
	if len(public) != 32 or len(signature) != 64:
		return False
	big_a = r_point_decompress(public)
	big_r = r_point_decompress(signature[:32])
	s = int.from_bytes(signature[32:], 'little')
	if big_a is None or big_r is None or s >= RL:
		return False
	h = int.from_bytes(hasher(signature[:32] + public + msg), 'little') % RL
	return r_point_equal(r_point_mul(s, RG), r_point_add(big_r, r_point_mul(h, big_a)))


def r_shared_point(hasher, secret, other_public):
	"""Encoded product of the clamped hashed private scalar and the public point; None when the property says 'refused'."""
	point = r_point_decompress(other_public)     # None for a non-canonical y or a point off the curve
	if point is None or not r_point_equal(r_point_mul(RL, point), (0, 1, 1, 0)):
		return None
	a, _ = r_secret_expand(hasher, secret)
	return r_point_compress(r_point_mul(a, point))


def sha512(data):
	return hashlib.sha512(data).digest()


def keccak512(data):
	import sha3  # harness shim (pure Python Keccak); the model side uses the Gallina Keccak
	return sha3.keccak_512(data).digest()


def hkdf_sha256(ikm, info, salt=bytes(32), length=32):
	import hmac
	prk = hmac.new(salt, ikm, hashlib.sha256).digest()
	out, block, counter = b'', b'', 1
	while len(out) < length:
		block = hmac.new(prk, block + info + bytes([counter]), hashlib.sha256).digest()
		out += block
		counter += 1
	return out[:length]
