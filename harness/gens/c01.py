"""Gen modules for the codec model (C01 C02 C12 C15 C03 C10): ArrayHelpers/BaseValue/ByteArray operators and the shipped schemas."""
import io

from .. import astdump
from ..common import GEN, REPO, setup_impl_path, write_if_changed
from ..gen import GenModule

AH = 'sdk/python/symbolchain/ArrayHelpers.py'
BV = 'sdk/python/symbolchain/BaseValue.py'
BA = 'sdk/python/symbolchain/ByteArray.py'

ARRAY_OPS = (
	GenModule('ArrayOps')
	.anchor(AH, 'read_array_impl', {2: ('ra_size_op', 'op'), 3: ('ra_size_bound', 'Z'), 6: ('ra_order_op', 'op')})
	.anchor(AH, 'write_array_impl', {6: ('wa_order_op', 'op')})
	.anchor(AH, 'ArrayHelpers.get_bytes', {0: ('gb_op', 'op')})
	.anchor(AH, 'ArrayHelpers.align_up', {0: ('au_op1', 'op'), 1: ('au_op2', 'op'), 2: ('au_c', 'Z'), 3: ('au_op3', 'op'), 4: ('au_op4', 'op')})
	.anchor(AH, 'ArrayHelpers.size', {})
	.anchor(AH, 'ArrayHelpers.read_array', {1: ('ra_fill_op', 'op'), 2: ('ra_fill_bound', 'Z')})
	.anchor(AH, 'ArrayHelpers.read_array_count', {1: ('ra_count_op', 'op')})
	.anchor(AH, 'ArrayHelpers.read_variable_size_elements', {
		1: ('rv_loop_op', 'op'), 2: ('rv_loop_bound', 'Z'), 3: ('rv_size_op', 'op'), 4: ('rv_size_bound', 'Z'), 7: ('rv_last_op', 'op'),
		8: ('rv_over_op', 'op')})
	.anchor(AH, 'ArrayHelpers.write_array', {})
	.anchor(AH, 'ArrayHelpers.write_array_count', {})
	.anchor(AH, 'ArrayHelpers.write_variable_size_elements', {6: ('wv_last_op', 'op'), 7: ('wv_pad_op', 'op')})
	.anchor(BV, 'BaseValue.__init__', {
		3: ('bv_bits', 'Z'), 4: ('bv_one_s', 'Z'), 7: ('bv_dec_s', 'Z'), 9: ('bv_dec_s2', 'Z'), 12: ('bv_dec_l', 'Z'), 13: ('bv_one_u', 'Z'),
		16: ('bv_dec_u', 'Z'), 17: ('bv_low_u', 'Z'), 19: ('bv_lt_op', 'op'), 20: ('bv_gt_op', 'op')})
	.anchor(BV, 'BaseValue._cmp', {})
	.anchor(BA, 'ByteArray.__init__', {1: ('ba_len_op', 'op')})
	.anchor(BA, 'ByteArray._cmp', {})
)

SCHEMAS = {
	'SchemaSc': ('sc_schema', 'catbuffer/schemas/symbol/all_generated.cats', 'catbuffer/schemas/symbol'),
	'SchemaNc': ('nc_schema', 'catbuffer/schemas/nem/all_generated.cats', 'catbuffer/schemas/nem'),
}


def expanded_models(root, include):
	"""Expanded type descriptors (ast objects) of a schema through the repo's own parser and post-processor."""
	setup_impl_path()
	from catparser.AstPostProcessor import AstPostProcessor
	raw = astdump.parse_files(root, include)
	processor = AstPostProcessor(raw)
	processor.apply_attributes()
	processor.expand_named_inlines()
	processor.expand_unnamed_inlines()
	return processor.type_descriptors


def schema_text(coqname, models):
	out = io.StringIO()
	out.write('(* REGENERATED from the .cats files through /repo\'s parser + post-processor by harness/gens/c01.py -- do not edit *)\n')
	out.write('From Symv Require Import Cats.AstRender.\nOpen Scope string_scope.\n\n')
	names = []
	for index, model in enumerate(models):
		out.write(f'Definition {coqname}_d{index} : decl := {astdump.coq_decl(model)}.\n')
		names.append(f'{coqname}_d{index}')
	out.write(f'\nDefinition {coqname} : list decl := [{"; ".join(names)}].\n')
	return out.getvalue()


def _extra(shapes):
	for module, (coqname, root, include) in SCHEMAS.items():
		try:
			models = expanded_models(REPO / root, REPO / include)
			shapes.report[f'schema:{root}'] = f'regenerated:{len(models)} declarations'
			write_if_changed(GEN / f'{module}.v', schema_text(coqname, models))
		except Exception as ex:  # pylint: disable=broad-except
			shapes.report[f'schema:{root}'] = f'not-regenerated:{type(ex).__name__}: {ex}'
			if not (GEN / f'{module}.v').exists():
				write_if_changed(GEN / f'{module}.v', f'From Symv Require Import Cats.AstRender.\nDefinition {coqname} : list decl := [].\n')


ARRAY_OPS.extra = _extra

MODULES = [ARRAY_OPS]
