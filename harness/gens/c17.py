"""Gen module for C17 (multi-file resolution and the CLI's exit status).

Anchors: LarkMultiFileParser.parse / set_include_path / __init__, _validate, main in catparser/__main__.py.  Holes are the
places a property-breaking edit would touch: the membership test guarding re-processing (`in` / `not in`), the lark rule
names the code compares against (matched in the model against the rule names READ FROM catbuffer.lark), the index of the
import tree's path child, and the two exit constants.  The pinned skeleton of `parse` is the repaired one
(seeded/_fixes/C17-fix.diff); on a tree without the repair the anchor is reported `shape-changed`, the pinned hole values
(= intended behaviour) are used for the model, and the correspondence / property oracle decide."""
import re

from .. import gen
from ..common import REPO
from ..gen import GenModule

MAIN = 'catbuffer/parser/catparser/__main__.py'
GRAMMAR = 'catbuffer/parser/catparser/grammar/catbuffer.lark'


def _render(kind, value, fallback):
	if kind == 'membership':
		if value not in ('In', 'NotIn'):
			raise ValueError(value)
		return ('true' if value == 'In' else 'false'), 'bool'
	return fallback(kind, value)


def grammar_rules():
	"""Reads the names of the start rule and of the import rule off the grammar: (start, import, problems)."""
	problems = []
	try:
		text = (REPO / GRAMMAR).read_text(encoding='utf8')
	except OSError:
		return 'start', 'import', ['grammar-missing']
	# joined continuation lines, one rule per logical line
	text = re.sub(r'\\\n', ' ', text)
	rules = {}
	for line in text.split('\n'):
		match = re.match(r'^([?!]?)([a-z_][a-z0-9_]*)\s*:(.*)$', line)
		if match:
			rules[match.group(2)] = (match.group(1), match.group(3).strip())
	start = 'start'
	# lark's entry rule is `start` (Lark.open is called without a start= option, part of the pinned skeleton elsewhere);
	# it must exist, be inlined when it has one child (`?`) and be a repetition of statements
	if 'start' not in rules or rules['start'][0] != '?' or rules['start'][1] != 'statement+':
		problems.append('start-rule-changed')
	imports = [name for name, (_, body) in rules.items() if re.fullmatch(r'"import"\s+ESCAPED_STRING\s+_NL', body)]
	if len(imports) != 1:
		problems.append('import-rule-changed')
		import_rule = 'import'
	else:
		import_rule = imports[0]
		if rules[import_rule][0] != '':
			problems.append('import-rule-inlined')
	statement = rules.get('statement', ('', ''))
	if statement[0] != '?' or [part.strip() for part in statement[1].split('|')] != ['[comment] declaration', import_rule, 'comment']:
		problems.append('statement-rule-changed')
	return start, import_rule, problems


class ResolveModule(GenModule):
	"""GenModule with one more hole kind (`membership`: In ↦ true, NotIn ↦ false) and two constants read from the grammar."""

	def generate(self, shapes):
		fallback = gen.render
		gen.render = lambda kind, value: _render(kind, value, fallback)
		try:
			text, unrecognised = super().generate(shapes)
		finally:
			gen.render = fallback
		start, import_rule, problems = grammar_rules()
		key = f'{GRAMMAR}::start/import'
		shapes.report[key] = 'recognised' if not problems else ','.join(problems)
		if problems:
			unrecognised.append(key)
		for name in (start, import_rule):
			if not re.fullmatch(r'[a-z_][a-z0-9_]*', name):
				raise RuntimeError(f'unexpected grammar rule name {name!r}')
		text += f'(* {key}: {shapes.report[key]} *)\n'
		text += f'Definition grammar_start_rule : string := "{start}"%string.\n'
		text += f'Definition grammar_import_rule : string := "{import_rule}"%string.\n'
		return text, unrecognised


RESOLVE = (
	ResolveModule('ResolveOps')
	.anchor(MAIN, 'LarkMultiFileParser.__init__', {})
	.anchor(MAIN, 'LarkMultiFileParser.set_include_path', {})
	# if resolved in processed: return [] ... 'start' == data ... 'import' == data ... children[0]
	.anchor(MAIN, 'LarkMultiFileParser.parse', {
		0: ('skip_if_member_now', 'membership'), 6: ('start_rule_now', 'string'), 8: ('import_rule_now', 'string'),
		12: ('import_child_now', 'nat')})
	# sys.exit(2)
	.anchor(MAIN, '_validate', {3: ('exit_validate_fail_now', 'Z')})
	# except (AstException, OSError): sys.exit(1)
	.anchor(MAIN, 'main', {26: ('exit_parse_fail_now', 'Z')})
)

MODULES = [RESOLVE]
