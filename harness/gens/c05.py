"""Gen module for C05 (inline expansion): the strings / operators the post-processor and the copy functions compare against."""
from ..gen import GenModule

AST = 'catbuffer/parser/catparser/ast.py'
POST = 'catbuffer/parser/catparser/AstPostProcessor.py'

EXPAND = (
	GenModule('ExpandOps')
	# prefix if '__value__' == self.name else f'{prefix}_{self.name}'
	# sizeof target: prefix if '__value__' == value else f'{prefix}_{value}'
	.anchor(AST, 'StructField.copy', {
		1: ('sizeof_value_name', 'string'), 2: ('sizeof_value_eq_op', 'op'), 3: ('sizeof_sep', 'string'),
		4: ('value_name', 'string'), 5: ('value_eq_op', 'op'), 6: ('field_sep', 'string')})
	# 'sizeof' == self.disposition
	.anchor(AST, 'StructField.is_size_reference', {0: ('sizeof_str', 'string'), 1: ('sizeof_op', 'op')})
	# f'{prefix}_{self.size}', f'{prefix}_{self.sort_key}'
	.anchor(AST, 'Array.copy', {1: ('array_size_sep', 'string'), 2: ('array_sort_key_sep', 'string')})
	.anchor(AST, 'Conditional.copy', {0: ('cond_sep', 'string')})
	.anchor(AST, 'FixedSizeInteger.copy', {0: ('sizeref_sep', 'string')})
	# 'inline' == self.disposition
	.anchor(AST, 'Struct.is_inline', {0: ('is_inline_str', 'string'), 1: ('is_inline_op', 'op')})
	.anchor(AST, 'Struct.apply_inline_template', {})
	# the regex and the newline constants are not holes (must equal the pinned atoms); line[len(active_comment_key) + 3:]
	.anchor(AST, 'Struct._build_comment_map', {6: ('comment_skip', 'nat')})
	# comment_line.strip('# \t'), ' ' separator between joined lines
	.anchor(AST, 'Comment.__init__', {3: ('cparse_strip', 'bytes'), 9: ('cparse_sep', 'string')})
	.anchor(AST, 'Array.is_expandable', {})
	.anchor(AST, 'Array.__init__', {})
	# hasattr(field, 'disposition') and 'inline' == field.disposition and hasattr(field, 'name')
	.anchor(POST, 'AstPostProcessor._is_named_inline', {2: ('named_inline_str', 'string'), 3: ('named_inline_op', 'op')})
	# not hasattr(model, 'disposition') or 'inline' != model.disposition
	.anchor(POST, 'AstPostProcessor.type_descriptors', {3: ('output_inline_str', 'string'), 4: ('output_inline_op', 'op')})
	# 'abstract' == referenced_type_model.disposition
	.anchor(POST, 'AstPostProcessor.expand_unnamed_inlines', {4: ('abstract_str', 'string'), 5: ('abstract_op', 'op')})
	.anchor(POST, 'AstPostProcessor.expand_named_inlines', {})
	.anchor(POST, 'AstPostProcessor.apply_attributes', {})
	.anchor(POST, 'AstPostProcessor._has_unnamed_inline_field', {})
	.anchor(POST, 'AstPostProcessor._structs_with_named_inlines', {})
	.anchor(POST, 'AstPostProcessor._structs_with_unnamed_inlines', {})
	.anchor(POST, 'AstPostProcessor._structs', {})
)

MODULES = [EXPAND]
