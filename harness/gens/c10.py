"""Gen modules for C10 (transactions from descriptors).

DescriptorOps        constants of the anchor functions of TransactionDescriptorProcessor / RuleBasedTransactionFactory and of both
                     TransactionFactory classes (key names, the `_computed` suffix, hint prefixes, the flag separator and the `none` name)
DescriptorRulesSc/Nc data tables read with Python `ast` (no import of the code under test): TYPE_HINTS of every class, the classes the
                     reflection-based `autodetect()` sees (by base class), the `create_by_name` mappings of the generated factories and the
                     sequence of add_* calls of `_build_rules`.  Only primitive Gallina types are used so that the files do not depend on the model."""
import ast

from ..common import GEN, REPO, write_if_changed
from ..gen import GenModule

TDP = 'sdk/python/symbolchain/TransactionDescriptorProcessor.py'
RBF = 'sdk/python/symbolchain/RuleBasedTransactionFactory.py'
SYMF = 'sdk/python/symbolchain/symbol/TransactionFactory.py'
NEMF = 'sdk/python/symbolchain/nem/TransactionFactory.py'
CRYPTO = 'sdk/python/symbolchain/CryptoTypes.py'

DESCRIPTOR = (
	GenModule('DescriptorOps', header='From Coq Require Import String ZArith.\nFrom Symv Require Import Base.PyOps.')
	.constexpr(CRYPTO, 'Hash256.SIZE', 'sdk_hash256_size')
	.constexpr(CRYPTO, 'PublicKey.SIZE', 'sdk_public_key_size')
	.anchor(TDP, 'TransactionDescriptorProcessor._lookup_value_and_apply_type_hints', {})
	.anchor(TDP, 'TransactionDescriptorProcessor.lookup_value', {})
	.anchor(TDP, 'TransactionDescriptorProcessor.copy_to', {3: ('computed_suffix', 'string')})
	.anchor(TDP, 'TransactionDescriptorProcessor._is_settable', {})
	.anchor(RBF, '_name_to_enum_value', {})
	.anchor(RBF, '_build_type_hints_map', {
		1: ('hint_array_prefix', 'string'), 2: ('hint_enum_prefix', 'string'), 3: ('hint_enum_strip', 'string'),
		4: ('hint_pod_prefix', 'string'), 5: ('hint_pod_strip', 'string'), 6: ('hint_struct_prefix', 'string')})
	.anchor(RBF, '_type_converter_factory', {})
	.anchor(RBF, 'RuleBasedTransactionFactory.add_pod_parser', {})
	.anchor(RBF, 'RuleBasedTransactionFactory.add_flags_parser', {
		0: ('flag_none_name', 'string'), 1: ('flag_none_value', 'Z'), 2: ('flag_separator', 'char'), 3: ('flag_neg_op', 'op'), 4: ('flag_neg_bound', 'Z')})
	.anchor(RBF, 'RuleBasedTransactionFactory.add_enum_parser', {})
	.anchor(RBF, 'RuleBasedTransactionFactory.add_struct_parser', {0: ('struct_rule_prefix', 'string')})
	.anchor(RBF, 'RuleBasedTransactionFactory.add_array_parser', {
		0: ('array_elem_test_prefix', 'string'), 1: ('array_elem_strip', 'string'), 2: ('array_rule_open', 'string'), 3: ('array_rule_close', 'string')})
	.anchor(RBF, 'RuleBasedTransactionFactory.autodetect', {})
	.anchor(RBF, 'RuleBasedTransactionFactory.create_from_factory', {0: ('type_key', 'string'), 1: ('type_ignore_key', 'string')})
	.anchor(RBF, 'RuleBasedTransactionFactory._auto_encode_strings', {})
	.anchor(SYMF, 'TransactionFactory._create_and_extend', {0: ('sym_network_key', 'string'), 3: ('sym_root_parent', 'Z')})
	.anchor(SYMF, 'TransactionFactory.create', {})
	.anchor(SYMF, 'TransactionFactory.create_embedded', {})
	.anchor(SYMF, 'TransactionFactory._symbol_type_converter', {})
	.anchor(NEMF, 'TransactionFactory.create', {1: ('nem_network_key', 'string')})
	.anchor(NEMF, 'TransactionFactory._nem_type_converter', {})
)

NETS = {
	'DescriptorRulesSc': ('sc', 'sdk/python/symbolchain/sc/__init__.py', SYMF, ['TransactionFactory', 'EmbeddedTransactionFactory']),
	'DescriptorRulesNc': ('nc', 'sdk/python/symbolchain/nc/__init__.py', NEMF, ['TransactionFactory']),
}


class NotRecognised(Exception):
	pass


def _class_defs(tree):
	return [node for node in tree.body if isinstance(node, ast.ClassDef)]


def type_hints(classes):
	"""class name -> [(key, hint)] with `**Base.TYPE_HINTS` entries resolved in place (dict semantics: a repeated key keeps its first position)."""
	raw = {}
	for cls in classes:
		for node in cls.body:
			if isinstance(node, ast.Assign) and len(node.targets) == 1 and isinstance(node.targets[0], ast.Name) and node.targets[0].id == 'TYPE_HINTS':
				if not isinstance(node.value, ast.Dict):
					raise NotRecognised(f'{cls.name}.TYPE_HINTS is not a dict literal')
				raw[cls.name] = node.value
	resolved = {}

	def resolve(name, depth=0):
		if name in resolved:
			return resolved[name]
		if name not in raw or depth > 20:
			raise NotRecognised(f'TYPE_HINTS of {name} cannot be resolved')
		items = {}
		for key, value in zip(raw[name].keys, raw[name].values):
			if key is None:
				if not (isinstance(value, ast.Attribute) and value.attr == 'TYPE_HINTS' and isinstance(value.value, ast.Name)):
					raise NotRecognised(f'{name}.TYPE_HINTS: unsupported ** entry')
				items.update(resolve(value.value.id, depth + 1))
			else:
				if not (isinstance(key, ast.Constant) and isinstance(key.value, str) and isinstance(value, ast.Constant) and isinstance(value.value, str)):
					raise NotRecognised(f'{name}.TYPE_HINTS: non-literal entry')
				items[key.value] = value.value
		resolved[name] = items
		return items

	for name in raw:
		resolve(name)
	return resolved


def autodetected(classes):
	"""What RuleBasedTransactionFactory.autodetect finds by reflection: subclasses of BaseValue, Enum, Flag (by their written base class)."""
	found = []
	for cls in classes:
		bases = [base.id for base in cls.bases if isinstance(base, ast.Name)]
		if 'BaseValue' in bases:
			found.append((cls.name, 'pod'))
		elif 'Flag' in bases:
			found.append((cls.name, 'flags'))
		elif 'Enum' in bases:
			found.append((cls.name, 'enum'))
	return sorted(found)      # dir(module) is sorted


def create_by_name_mapping(classes, factory_name):
	cls = next((c for c in classes if c.name == factory_name), None)
	if cls is None:
		raise NotRecognised(f'{factory_name} not found')
	func = next((n for n in cls.body if isinstance(n, ast.FunctionDef) and n.name == 'create_by_name'), None)
	if func is None:
		raise NotRecognised(f'{factory_name}.create_by_name not found')
	mapping = None
	for node in func.body:
		if isinstance(node, ast.Assign) and len(node.targets) == 1 and isinstance(node.targets[0], ast.Name) and node.targets[0].id == 'mapping':
			mapping = node.value
	if not isinstance(mapping, ast.Dict):
		raise NotRecognised(f'{factory_name}.create_by_name: mapping is not a dict literal')
	pairs = []
	for key, value in zip(mapping.keys, mapping.values):
		if not (isinstance(key, ast.Constant) and isinstance(key.value, str) and isinstance(value, ast.Name)):
			raise NotRecognised(f'{factory_name}.create_by_name: non-literal mapping entry')
		pairs.append((key.value, value.id))
	return pairs


def build_rule_actions(tree):
	"""The add_* calls of TransactionFactory._build_rules in execution order: ('autodetect','',''), ('struct',name,''),
	('sdk',rule name,sdk class name), ('array',name,'').  Fail closed on anything but the shapes used by the two shipped factories."""
	cls = next((c for c in _class_defs(tree) if c.name == 'TransactionFactory'), None)
	func = next((n for n in cls.body if isinstance(n, ast.FunctionDef) and n.name == '_build_rules'), None) if cls else None
	if func is None:
		raise NotRecognised('_build_rules not found')
	env = {}
	actions = []

	def literal(node):
		if isinstance(node, ast.Name) and node.id in env:
			return env[node.id]
		if isinstance(node, ast.List) and all(isinstance(e, ast.Constant) and isinstance(e.value, str) for e in node.elts):
			return [e.value for e in node.elts]
		if isinstance(node, ast.Dict) and all(isinstance(k, ast.Constant) and isinstance(v, ast.Name) for k, v in zip(node.keys, node.values)):
			return [(k.value, v.id) for k, v in zip(node.keys, node.values)]
		raise NotRecognised(f'_build_rules: unsupported literal {ast.dump(node)[:80]}')

	def call_of(stmt):
		if isinstance(stmt, ast.Expr) and isinstance(stmt.value, ast.Call) and isinstance(stmt.value.func, ast.Attribute) \
			and isinstance(stmt.value.func.value, ast.Name) and stmt.value.func.value.id == 'factory':
			return stmt.value.func.attr, stmt.value.args
		return None, None

	def argument(node, loop_vars):
		if isinstance(node, ast.Constant) and isinstance(node.value, str):
			return lambda binding: node.value
		if isinstance(node, ast.Name) and node.id in loop_vars:
			return lambda binding: binding[node.id]
		if isinstance(node, ast.JoinedStr):
			parts = []
			for value in node.values:
				if isinstance(value, ast.Constant):
					parts.append(lambda binding, text=value.value: text)
				elif isinstance(value, ast.FormattedValue) and isinstance(value.value, ast.Name) and value.value.id in loop_vars \
					and value.conversion == -1 and value.format_spec is None:
					parts.append(lambda binding, name=value.value.id: binding[name])
				else:
					raise NotRecognised('_build_rules: unsupported f-string')
			return lambda binding: ''.join(part(binding) for part in parts)
		raise NotRecognised(f'_build_rules: unsupported argument {ast.dump(node)[:80]}')

	def emit(method, args, loop_vars, binding):
		if method == 'autodetect' and not args:
			actions.append(('autodetect', '', ''))
		elif method == 'add_struct_parser' and len(args) == 1:
			actions.append(('struct', argument(args[0], loop_vars)(binding), ''))
		elif method == 'add_array_parser' and len(args) == 1:
			actions.append(('array', argument(args[0], loop_vars)(binding), ''))
		elif method == 'add_pod_parser' and len(args) == 2:
			actions.append(('sdk', argument(args[0], loop_vars)(binding), argument(args[1], loop_vars)(binding)))
		else:
			raise NotRecognised(f'_build_rules: unsupported call factory.{method}')

	for stmt in func.body:
		if isinstance(stmt, ast.Expr) and isinstance(stmt.value, ast.Constant):
			continue
		if isinstance(stmt, ast.Assign) and len(stmt.targets) == 1 and isinstance(stmt.targets[0], ast.Name):
			name = stmt.targets[0].id
			if name == 'factory':
				call = stmt.value
				if not (isinstance(call, ast.Call) and isinstance(call.func, ast.Name) and call.func.id == 'RuleBasedTransactionFactory' and len(call.args) == 3):
					raise NotRecognised('_build_rules: factory construction changed')
				continue
			env[name] = literal(stmt.value)
			continue
		if isinstance(stmt, ast.Return):
			continue
		method, args = call_of(stmt)
		if method:
			emit(method, args, set(), {})
			continue
		if isinstance(stmt, ast.For) and not stmt.orelse and len(stmt.body) == 1:
			method, args = call_of(stmt.body[0])
			if not method:
				raise NotRecognised('_build_rules: unsupported loop body')
			iterable = stmt.iter
			if isinstance(iterable, ast.Call) and isinstance(iterable.func, ast.Attribute) and iterable.func.attr == 'items' and not iterable.args:
				items = literal(iterable.func.value)
				if not (isinstance(stmt.target, ast.Tuple) and len(stmt.target.elts) == 2 and all(isinstance(e, ast.Name) for e in stmt.target.elts)):
					raise NotRecognised('_build_rules: unsupported loop target')
				first, second = (e.id for e in stmt.target.elts)
				for key, value in items:
					emit(method, args, {first, second}, {first: key, second: value})
			else:
				items = literal(iterable)
				if not isinstance(stmt.target, ast.Name):
					raise NotRecognised('_build_rules: unsupported loop target')
				for item in items:
					if not isinstance(item, str):
						raise NotRecognised('_build_rules: unsupported loop item')
					emit(method, args, {stmt.target.id}, {stmt.target.id: item})
			continue
		raise NotRecognised(f'_build_rules: unsupported statement {type(stmt).__name__}')
	return actions


def _s(text):
	if '"' in text or not all(32 <= ord(c) < 127 for c in text):
		raise NotRecognised(f'name not printable: {text!r}')
	return f'"{text}"'


def rules_text(prefix, module_path, factory_path, factories):
	tree = ast.parse((REPO / module_path).read_text(encoding='utf8'))
	classes = _class_defs(tree)
	hints = type_hints(classes)
	lines = [
		f'(* REGENERATED from {module_path} and {factory_path} (Python ast) by harness/gens/c10.py -- do not edit *)',
		'From Coq Require Import String List.', 'Import ListNotations.', 'Open Scope string_scope.', '']
	lines.append(f'Definition {prefix}_hints : list (string * list (string * string)) := [')
	lines.append(';\n'.join(
		f'  ({_s(name)}, [' + '; '.join(f'({_s(k)}, {_s(v)})' for k, v in items.items()) + '])' for name, items in hints.items()))
	lines.append('].\n')
	lines.append(f'Definition {prefix}_autodetect : list (string * string) := [')
	lines.append('; '.join(f'({_s(name)}, {_s(kind)})' for name, kind in autodetected(classes)))
	lines.append('].\n')
	for factory in factories:
		pairs = create_by_name_mapping(classes, factory)
		lines.append(f'Definition {prefix}_names_{factory} : list (string * string) := [')
		lines.append('; '.join(f'({_s(name)}, {_s(cls)})' for name, cls in pairs))
		lines.append('].\n')
	actions = build_rule_actions(ast.parse((REPO / factory_path).read_text(encoding='utf8')))
	lines.append(f'Definition {prefix}_build_actions : list (string * string * string) := [')
	lines.append('; '.join(f'({_s(a)}, {_s(b)}, {_s(c)})' for a, b, c in actions))
	lines.append('].')
	return '\n'.join(lines) + '\n'


def _empty_text(prefix, factories):
	lines = ['From Coq Require Import String List.', 'Import ListNotations.', 'Open Scope string_scope.',
		f'Definition {prefix}_hints : list (string * list (string * string)) := [].', f'Definition {prefix}_autodetect : list (string * string) := [].']
	lines += [f'Definition {prefix}_names_{factory} : list (string * string) := [].' for factory in factories]
	lines.append(f'Definition {prefix}_build_actions : list (string * string * string) := [].')
	return '\n'.join(lines) + '\n'


def _extra(shapes):
	for module, (prefix, module_path, factory_path, factories) in NETS.items():
		key = f'descriptor-rules:{prefix}'
		try:
			write_if_changed(GEN / f'{module}.v', rules_text(prefix, module_path, factory_path, factories))
			shapes.report[key] = 'regenerated'
		except Exception as ex:  # pylint: disable=broad-except
			shapes.report[key] = f'not-regenerated:{type(ex).__name__}: {ex}'
			if not (GEN / f'{module}.v').exists():
				write_if_changed(GEN / f'{module}.v', _empty_text(prefix, factories))


DESCRIPTOR.extra = _extra

MODULES = [DESCRIPTOR]
