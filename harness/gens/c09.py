"""Gen module for C09 (transaction hashes, Merkle roots / audit paths, Patricia proofs): Gen/MerkleOps.v."""
from ..gen import GenModule

MERKLE = 'sdk/python/symbolchain/symbol/Merkle.py'
FACADE = 'sdk/python/symbolchain/facade/SymbolFacade.py'
NEMFACADE = 'sdk/python/symbolchain/facade/NemFacade.py'
READER = 'sdk/python/symbolchain/BufferReader.py'
CRYPTO = 'sdk/python/symbolchain/CryptoTypes.py'
SC = 'sdk/python/symbolchain/sc/__init__.py'

MERKLE_OPS = (
	GenModule('MerkleOps')
	# sizes and type values read (by name) by the facade
	.constexpr(CRYPTO, 'Signature.SIZE', 'signature_size')
	.constexpr(CRYPTO, 'PublicKey.SIZE', 'public_key_size')
	.constexpr(CRYPTO, 'Hash256.SIZE', 'hash256_size')
	.constexpr(SC, 'TransactionType.AGGREGATE_BONDED', 'agg_bonded_type')
	.constexpr(SC, 'TransactionType.AGGREGATE_COMPLETE', 'agg_complete_type')
	# TRANSACTION_HEADER_SIZE = 4 + 4 + Signature.SIZE + PublicKey.SIZE + 4 ; AGGREGATE_HASHED_SIZE = 4 + 8 + 8 + Hash256.SIZE
	.anchor(FACADE, 'TRANSACTION_HEADER_SIZE', {2: ('hdr_w_size', 'Z'), 4: ('hdr_w_reserved1', 'Z'), 8: ('hdr_w_reserved2', 'Z')})
	.anchor(FACADE, 'AGGREGATE_HASHED_SIZE', {2: ('agg_w_version_network_type', 'Z'), 4: ('agg_w_max_fee', 'Z'), 6: ('agg_w_deadline', 'Z')})
	.anchor(FACADE, 'SymbolFacade._is_aggregate_transaction', {
		0: ('type_off_op', 'op'), 1: ('type_off_skip', 'Z'), 2: ('type_hi_idx_op', 'op'), 3: ('type_hi_idx_inc', 'Z'),
		4: ('type_hi_shift_op', 'op'), 5: ('type_hi_shift', 'Z'), 6: ('type_combine_op', 'op')})
	.anchor(FACADE, 'SymbolFacade._transaction_data_buffer', {0: ('window_end_op', 'op')})
	.anchor(FACADE, 'SymbolFacade.hash_transaction', {})
	.anchor(FACADE, 'SymbolFacade.hash_embedded_transactions', {})
	.anchor(NEMFACADE, 'NemFacade.hash_transaction', {})
	# MerkleHashBuilder.final: every comparison / arithmetic atom of the level loop
	.anchor(MERKLE, 'MerkleHashBuilder.update', {})
	.anchor(MERKLE, 'MerkleHashBuilder.final', {
		1: ('mk_outer_cmp', 'op'), 2: ('mk_outer_bound', 'Z'), 3: ('mk_i_init', 'Z'), 4: ('mk_inner_cmp', 'op'),
		5: ('mk_pair_idx_op', 'op'), 6: ('mk_pair_idx_inc', 'Z'), 7: ('mk_pair_cmp', 'op'),
		8: ('mk_second_idx_op', 'op'), 9: ('mk_second_idx_inc', 'Z'), 10: ('mk_dup_inc_op', 'op'), 11: ('mk_dup_inc', 'Z'),
		12: ('mk_store_op', 'op'), 13: ('mk_store_div', 'Z'), 14: ('mk_step_op', 'op'), 15: ('mk_step', 'Z'),
		16: ('mk_halve_op', 'op'), 17: ('mk_halve_div', 'Z'), 18: ('mk_result_idx', 'Z')})
	.anchor(MERKLE, 'prove_merkle', {0: ('pm_root_cmp', 'op')})
	# Patricia: nibble access, path encoding, node hashing, node (de)serialization, verdicts
	.anchor(MERKLE, '_get_nibble_at', {
		0: ('nib_byte_op', 'op'), 1: ('nib_byte_div', 'Z'), 2: ('nib_odd_val', 'Z'), 3: ('nib_odd_cmp', 'op'), 4: ('nib_odd_op', 'op'),
		5: ('nib_odd_mod', 'Z'), 6: ('nib_lo_op', 'op'), 7: ('nib_lo_mask', 'Z'), 8: ('nib_hi_op', 'op'), 9: ('nib_hi_shift', 'Z')})
	.anchor(MERKLE, '_encode_path', {
		0: ('enc_i_init', 'Z'), 1: ('enc_leaf_flag', 'Z'), 2: ('enc_branch_flag', 'Z'), 3: ('enc_odd_val', 'Z'), 4: ('enc_odd_cmp', 'op'),
		5: ('enc_odd_op', 'op'), 6: ('enc_odd_mod', 'Z'), 8: ('enc_or_outer', 'op'), 9: ('enc_odd_flag', 'Z'), 10: ('enc_or_inner', 'op'),
		11: ('enc_first_nibble', 'Z'), 12: ('enc_i_inc_op', 'op'), 13: ('enc_i_inc', 'Z'), 14: ('enc_loop_cmp', 'op'),
		15: ('enc_shift_op', 'op'), 16: ('enc_shift', 'Z'), 17: ('enc_combine_op', 'op'), 18: ('enc_next_op', 'op'),
		19: ('enc_next_inc', 'Z'), 20: ('enc_step_op', 'op'), 21: ('enc_step', 'Z')})
	.anchor(MERKLE, 'TreeNode.hex_path', {})
	.anchor(MERKLE, 'LeafNode.calculate_hash', {0: ('leaf_hash_is_leaf', 'bool')})
	.anchor(MERKLE, 'BranchNode.calculate_hash', {0: ('branch_hash_is_leaf', 'bool')})
	.anchor(MERKLE, '_deserialize_path', {
		0: ('des_nibbles_w', 'Z'), 1: ('des_round_op', 'op'), 2: ('des_round_inc', 'Z'), 3: ('des_half_op', 'op'), 4: ('des_half_div', 'Z')})
	.anchor(MERKLE, '_deserialize_leaf', {})
	.anchor(MERKLE, '_deserialize_branch', {
		0: ('des_mask_w', 'Z'), 3: ('des_links_n', 'nat'), 4: ('des_mask_op', 'op'), 5: ('des_pow_base', 'Z')})
	.anchor(MERKLE, 'deserialize_patricia_tree_nodes', {
		1: ('des_marker_w', 'Z'), 2: ('des_leaf_marker', 'Z'), 3: ('des_leaf_cmp', 'op'), 4: ('des_branch_marker', 'Z'), 5: ('des_branch_cmp', 'op')})
	.anchor(READER, 'BufferReader.__init__', {0: ('reader_order', 'endian'), 1: ('reader_init_offset', 'Z')})
	.anchor(READER, 'BufferReader.eof', {0: ('reader_eof_cmp', 'op')})
	.anchor(READER, 'BufferReader.read_int', {})
	.anchor(READER, 'BufferReader.read_bytes', {0: ('reader_end_op', 'op'), 1: ('reader_advance_op', 'op')})
	.anchor(MERKLE, 'PatriciaMerkleProofResult', {
		0: ('code_valid_positive', 'Z'), 1: ('code_valid_negative', 'Z'), 2: ('code_inconclusive', 'Z'),
		3: ('code_state_hash_does_not_match_roots', 'Z'), 4: ('code_unanchored_path_tree', 'Z'), 5: ('code_leaf_value_mismatch', 'Z'),
		6: ('code_unlinked_node', 'Z'), 7: ('code_path_mismatch', 'Z')})
	.anchor(MERKLE, '_check_state_hash', {0: ('state_hash_cmp', 'op')})
	.anchor(MERKLE, 'prove_patricia_merkle', {
		1: ('pat_first_idx', 'Z'), 6: ('pat_value_cmp', 'op'), 14: ('pat_path_cmp', 'op'), 16: ('pat_nibbles_per_byte', 'Z'),
		17: ('pat_nibbles_op', 'op')})
)

MODULES = [MERKLE_OPS]
