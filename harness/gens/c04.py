"""Gen modules for C04 / C11 (CATS concrete syntax).

GrammarTerminals   closed keyword / attribute-name / width / operator sets, the repetition marks of the three name classes and the
                   hex-digit range, read off catparser/grammar/catbuffer.lark by a small fail-closed reader: every rule and terminal
                   of the grammar must equal the TEMPLATE below token for token; only the places marked as holes (`"$x"` a single
                   quoted string, `$$x` an alternation of quoted strings, `$+x` a repetition mark) may differ and are what is
                   regenerated.  Anything else (a new rule, a changed priority, another punctuation, a changed regex) is reported as an
                   unrecognised grammar shape; the pinned values below (= the grammar this framework was built against) are then used.
SyntaxOps          constants of the Python-side anchors: Comment.__init__ (characters stripped from a comment line, separators),
                   FixedSizeInteger.__init__ (size arithmetic), and the __str__ family (no holes; pinned shapes) with one special
                   recogniser: Attribute.__str__ is known in two shapes, the shipped one (prints lark's None placeholders) and the
                   repaired one (skips them); `attr_str_skips_none_now` says which one the tree has."""
import hashlib
import re

from ..common import GEN, REPO, find_def, shape_of, write_if_changed
from ..gen import GenModule

GRAMMAR = 'catbuffer/parser/catparser/grammar/catbuffer.lark'
AST = 'catbuffer/parser/catparser/ast.py'
LARKPARSER = 'catbuffer/parser/catparser/CatsLarkParser.py'

# ---------------------------------------------------------------------------------------------------------------------
# grammar reader

TEMPLATE = r'''
%import common.DIGIT
%import common.ESCAPED_STRING
%import common.LCASE_LETTER
%import common.UCASE_LETTER
%import common.WS_INLINE
%ignore WS_INLINE
%declare _INDENT _DEDENT
?start: statement+
?declaration: alias | enum | struct
?statement: [comment] declaration | import | comment
import: "$kw_import" ESCAPED_STRING _NL
alias: "$kw_using" USER_TYPE_NAME "=" (FIXED_SIZE_INTEGER | fixed_size_buffer) _NL
enum_attributes: enum_attribute+
enum_attribute: "@" ( ENUM_ATTRIBUTE_NAME_ZERO_PARAMS ) _NL
ENUM_ATTRIBUTE_NAME_ZERO_PARAMS.1: $$enum_attr_zero
enum: [enum_attributes] "$kw_enum" USER_TYPE_NAME ":" FIXED_SIZE_INTEGER _NL [_INDENT (member_comment | enum_child)* _DEDENT]
enum_child: [member_comment] enum_value
enum_value: CONST_PROPERTY_NAME "=" _dec_or_hex_number _NL
field_attributes: field_attribute+
field_attribute: "@" ( FIELD_ATTRIBUTE_NAME_ZERO_PARAMS | FIELD_ATTRIBUTE_NAME_ALIGNMENT "(" _dec_or_hex_number ["," [NEGATION_OPERATOR] FIELD_ATTRIBUTE_NAME_ALIGNMENT_OPTION] ")" | FIELD_ATTRIBUTE_NAME_SINGLE_PARAM_PROPERTY "(" PROPERTY_NAME ")" | FIELD_ATTRIBUTE_NAME_SIZEREF "(" PROPERTY_NAME ["," _dec_or_hex_number] ")" ) _NL
FIELD_ATTRIBUTE_NAME_ZERO_PARAMS.1: $$field_attr_zero
FIELD_ATTRIBUTE_NAME_ALIGNMENT.1: $$field_attr_alignment
FIELD_ATTRIBUTE_NAME_ALIGNMENT_OPTION.1: $$alignment_option
FIELD_ATTRIBUTE_NAME_SINGLE_PARAM_PROPERTY.1: $$field_attr_single
FIELD_ATTRIBUTE_NAME_SIZEREF.1: $$field_attr_sizeref
struct_attributes: struct_attribute+
struct_attribute: "@" ( STRUCT_ATTRIBUTE_NAME_ZERO_PARAMS | STRUCT_ATTRIBUTE_NAME_SINGLE_PARAM "(" PROPERTY_NAME ")" | STRUCT_ATTRIBUTE_NAME_TWO_PARAMS "(" PROPERTY_NAME "," CONST_PROPERTY_NAME ")" | STRUCT_ATTRIBUTE_NAME_MULTI_PARAM "(" PROPERTY_NAME ("," PROPERTY_NAME)* ")" | STRUCT_ATTRIBUTE_NAME_MULTI_PARAM_WITH_TRANSFORM "(" PROPERTY_NAME ["!" TRANSFORM_NAME] ("," PROPERTY_NAME ["!" TRANSFORM_NAME])* ")" ) _NL
STRUCT_ATTRIBUTE_NAME_ZERO_PARAMS.1: $$struct_attr_zero
STRUCT_ATTRIBUTE_NAME_SINGLE_PARAM.1: $$struct_attr_single
STRUCT_ATTRIBUTE_NAME_TWO_PARAMS.1: $$struct_attr_two
STRUCT_ATTRIBUTE_NAME_MULTI_PARAM.1: $$struct_attr_multi
STRUCT_ATTRIBUTE_NAME_MULTI_PARAM_WITH_TRANSFORM.1: $$struct_attr_transform
TRANSFORM_NAME.1: $$transform_names
struct: [struct_attributes] [STRUCT_MODIFIER] "$kw_struct" USER_TYPE_NAME _NL _INDENT (member_comment | struct_child)* _DEDENT
struct_child: [member_comment] ( struct_field | struct_field_const | struct_field_reserved | struct_field_sizeof | struct_field_inline | struct_inline )
struct_field: [field_attributes] (VALUE_PROPERTY_NAME_PLACEHOLDER | PROPERTY_NAME) "=" (USER_TYPE_NAME | FIXED_SIZE_INTEGER | array_expression) [conditional_expression] _NL
struct_field_const: CONST_PROPERTY_NAME "=" "$kw_make_const" "(" _integer_or_enum_const ")" _NL
struct_field_reserved: PROPERTY_NAME "=" "$kw_make_reserved" "(" _integer_or_enum_const ")" _NL
struct_field_sizeof: PROPERTY_NAME "=" "$kw_sizeof" "(" FIXED_SIZE_INTEGER "," PROPERTY_NAME ")" _NL
struct_field_inline: PROPERTY_NAME "=" "$kw_inline_field" USER_TYPE_NAME _NL
struct_inline: "$kw_inline_member" USER_TYPE_NAME _NL
STRUCT_MODIFIER.1: $$struct_modifiers
array_expression: "$kw_array" "(" (FIXED_SIZE_INTEGER | USER_TYPE_NAME) "," (PROPERTY_NAME | _dec_or_hex_number | ARRAY_SIZE_FILL_PLACEHOLDER) ")"
ARRAY_SIZE_FILL_PLACEHOLDER: "$fill_placeholder"
conditional_expression: "$kw_if" (_dec_or_hex_number | CONST_PROPERTY_NAME) CONDITIONAL_OPERATION PROPERTY_NAME
CONDITIONAL_OPERATION: $$cond_ops
NEGATION_OPERATOR: "$negation"
_integer_or_enum_const: (FIXED_SIZE_INTEGER "," _dec_or_hex_number | USER_TYPE_NAME "," CONST_PROPERTY_NAME)
_dec_or_hex_number: DEC_NUMBER | HEX_NUMBER
DEC_NUMBER: DIGIT+
HEX_NUMBER: "$hex_prefix" ("$hex_lo".."$hex_hi" | DIGIT)+
FIXED_SIZE_INTEGER.1: ["$int_unsigned_prefix"] "$int_kw" ($$int_widths)
fixed_size_buffer: "$kw_binary_fixed" "(" _dec_or_hex_number ")"
CONST_PROPERTY_NAME: UCASE_LETTER (UCASE_LETTER | DIGIT | "_")$+const_rep
PROPERTY_NAME: LCASE_LETTER (LCASE_LETTER | DIGIT | "_")$+prop_rep
USER_TYPE_NAME: UCASE_LETTER LCASE_LETTER (UCASE_LETTER | LCASE_LETTER | DIGIT)$+type_rep
VALUE_PROPERTY_NAME_PLACEHOLDER: "$value_placeholder"
comment: MULTILINE_SH_COMMENT _NL
member_comment: MULTILINE_SH_COMMENT _NL
MULTILINE_SH_COMMENT: /#[^\n]*(\r?\n[\t ]*#[^\n]*)*/
_NL: /(\r?\n[\t ]*)+/
'''

# The shipped grammar uses the one rule `comment` at top level and inside struct / enum bodies.  Its LALR state after a comment
# line therefore accepts the union of the top-level and the member starters, and lark's contextual lexer then takes a member that
# begins with a struct modifier word (or is named like a top-level keyword) for that keyword.  The repaired grammar (TEMPLATE) has
# a separate `member_comment` rule.  Both shapes are recognised; `comment_merged_now` tells the model which one the tree has.
TEMPLATE_SHIPPED = TEMPLATE.replace('member_comment: MULTILINE_SH_COMMENT _NL\n', '').replace('member_comment', 'comment')

PINNED = {
	'kw_import': 'import', 'kw_using': 'using', 'kw_enum': 'enum', 'kw_struct': 'struct', 'kw_make_const': 'make_const',
	'kw_make_reserved': 'make_reserved', 'kw_sizeof': 'sizeof', 'kw_inline_field': 'inline', 'kw_inline_member': 'inline',
	'kw_array': 'array', 'kw_if': 'if', 'kw_binary_fixed': 'binary_fixed',
	'fill_placeholder': '__FILL__', 'value_placeholder': '__value__', 'negation': 'not',
	'hex_prefix': '0x', 'hex_lo': 'A', 'hex_hi': 'F', 'int_unsigned_prefix': 'u', 'int_kw': 'int',
	'enum_attr_zero': ['is_bitwise'], 'field_attr_zero': ['is_byte_constrained'], 'field_attr_alignment': ['alignment'],
	'alignment_option': ['pad_last'], 'field_attr_single': ['sort_key'], 'field_attr_sizeref': ['sizeref'],
	'struct_attr_zero': ['is_aligned', 'is_size_implicit'], 'struct_attr_single': ['size'], 'struct_attr_two': ['initializes'],
	'struct_attr_multi': ['discriminator'], 'struct_attr_transform': ['comparer'], 'transform_names': ['ripemd_keccak_256'],
	'struct_modifiers': ['inline', 'abstract'], 'cond_ops': ['not equals', 'equals', 'in', 'not in'],
	'int_widths': ['8', '16', '32', '64'],
	'const_rep': '+', 'prop_rep': '+', 'type_rep': '*'
}

_TOKEN = re.compile(r'''
	(?P<str>"(?:[^"\\\n]|\\.)*") | (?P<re>/(?:[^/\\\n]|\\.)+/[a-z]*) | (?P<name>[%?!]?[A-Za-z_][A-Za-z0-9_.]*) | (?P<dots>\.\.) |
	(?P<punct>[()\[\]|*+?:~]) | (?P<hole>\$[$+]?[a-z_]+)
''', re.X)


def _tokens(line):
	out = []
	pos = 0
	line = line.strip()
	while pos < len(line):
		if line[pos] in ' \t':
			pos += 1
			continue
		if line.startswith('//', pos):
			break  # remark (a regex terminal cannot be empty, so `//` at a token boundary always starts a remark)
		match = _TOKEN.match(line, pos)
		if not match:
			raise ValueError(f'untokenisable grammar text at {line[pos:pos + 20]!r}')
		kind = match.lastgroup
		text = match.group()
		if kind == 'str' and text.startswith('"$') and re.fullmatch(r'"\$[a-z_]+"', text):
			out.append(('hole', text[1:-1]))
		else:
			out.append((kind, text))
		pos = match.end()
	return out


def _logical_lines(text):
	text = text.replace('\r\n', '\n')
	text = re.sub(r'\\\n', ' ', text)
	lines = []
	for line in text.split('\n'):
		if line.strip() and not line.strip().startswith('//'):
			lines.append(line)
	return lines


def _unquote(text):
	body = text[1:-1]
	if '\\' in body:
		raise ValueError(f'escape in grammar string {text}')
	return body


def read_grammar(text):
	"""Returns (values, problems); values['comment_merged'] says whether the grammar is the shipped shape (one comment rule)."""
	values, problems = read_grammar_as(text, TEMPLATE)
	values['comment_merged'] = False
	if problems:
		shipped_values, shipped_problems = read_grammar_as(text, TEMPLATE_SHIPPED)
		if len(shipped_problems) < len(problems):
			shipped_values['comment_merged'] = True
			return shipped_values, shipped_problems
	return values, problems


def read_grammar_as(text, template):
	"""Returns (values, problems). Fail closed: any deviation from the template outside the holes is a problem."""
	values = {}
	problems = []
	try:
		actual = [_tokens(line) for line in _logical_lines(text)]
		expected = [_tokens(line) for line in _logical_lines(template)]
	except ValueError as ex:
		return dict(PINNED), [str(ex)]
	if len(actual) != len(expected):
		problems.append(f'grammar has {len(actual)} rules/directives, expected {len(expected)}')
	def head_of(line):
		return tuple(line) if line and line[0][1].startswith('%') else tuple(line[:1])

	by_head = {head_of(line): line for line in actual}
	if len(by_head) != len(actual):
		problems.append('duplicate rule heads')
	for exp in expected:
		head = head_of(exp)
		act = by_head.get(head)
		if act is None:
			problems.append(f'missing: {exp[0][1]}')
			continue
		i = j = 0
		ok = True
		while i < len(exp) and ok:
			kind, item = exp[i]
			if kind == 'hole' and item.startswith('$$'):
				alts = []
				while j < len(act) and act[j][0] == 'str':
					alts.append(_unquote(act[j][1]))
					j += 1
					if j < len(act) and act[j] == ('punct', '|') and j + 1 < len(act) and act[j + 1][0] == 'str':
						j += 1
					else:
						break
				if not alts:
					ok = False
				values[item[2:]] = alts
			elif kind == 'hole' and item.startswith('$+'):
				if j < len(act) and act[j] in (('punct', '+'), ('punct', '*')):
					values[item[2:]] = act[j][1]
					j += 1
				else:
					ok = False
			elif kind == 'hole':
				if j < len(act) and act[j][0] == 'str':
					values[item[1:]] = _unquote(act[j][1])
					j += 1
				else:
					ok = False
			else:
				if j < len(act) and act[j] == exp[i]:
					j += 1
				else:
					ok = False
			i += 1
		if not ok or j != len(act):
			problems.append(f'changed outside holes: {exp[0][1]}')
	for head in by_head:
		if head not in {head_of(line) for line in expected}:
			problems.append(f'unexpected: {head[0][1] if head else "?"}')
	for key, pinned in PINNED.items():
		value = values.get(key)
		bad = value is None or (isinstance(pinned, list) != isinstance(value, list))
		if not bad:
			for item in (value if isinstance(value, list) else [value]):
				if not item or any(not 32 <= ord(c) < 127 or c == '"' for c in item):
					bad = True
		if bad:
			problems.append(f'hole not readable: {key}')
			values[key] = pinned
	return values, problems


def cps(text):
	return '[' + '; '.join(str(ord(c)) for c in text) + ']%Z'


def grammar_values():
	try:
		text = (REPO / GRAMMAR).read_text(encoding='utf8')
	except OSError:
		return dict(PINNED, comment_merged=False), ['grammar-missing']
	return read_grammar(text)


def terminals_text(values, status):
	lines = [
		'(* REGENERATED from catparser/grammar/catbuffer.lark by harness/gens/c04.py -- do not edit *)',
		'From Symv Require Import Base.Bytes.', '',
		f'(* {GRAMMAR}: {status} *)']
	for key in PINNED:
		value = values[key]
		if key.endswith('_rep'):
			lines.append(f'Definition {key}_min_now : nat := {1 if value == "+" else 0}%nat.')
		elif isinstance(value, list):
			lines.append(f'Definition {key}_now : list (list Z) := [' + '; '.join(cps(item) for item in value) + '].')
		else:
			lines.append(f'Definition {key}_now : list Z := {cps(value)}.')
	lines.append(f'Definition comment_merged_now : bool := {"true" if values.get("comment_merged") else "false"}.')
	return '\n'.join(lines) + '\n'


# ---------------------------------------------------------------------------------------------------------------------
# Python-side anchors

# skeleton digest of the shipped Attribute.__str__ (prints every value, hence lark's None placeholders)
ATTR_STR_SHIPPED_SKELETON = 'bdb3ad1605738f29'


class SyntaxModule(GenModule):
	def generate(self, shapes):
		text, unrecognised = super().generate(shapes)
		key = f'{AST}::Attribute.__str__'
		skips = True
		if key in unrecognised:
			tree = shapes.tree(AST)
			node = find_def(tree, 'Attribute.__str__') if tree is not None else None
			if node is not None:
				digest = hashlib.sha256(shape_of(node)[0].encode('utf8')).hexdigest()[:16]
				atoms = shape_of(node)[1]
				if digest == ATTR_STR_SHIPPED_SKELETON and atoms == ATTR_STR_SHIPPED_ATOMS:
					unrecognised.remove(key)
					shapes.report[key] = 'recognised:shipped-shape(prints-none-placeholders)'
					skips = False
		text += f'(* {key}: {shapes.report.get(key)} *)\n'
		text += f'Definition attr_str_skips_none_now : bool := {"true" if skips else "false"}.\n'
		return text, unrecognised


ATTR_STR_SHIPPED_ATOMS = [
	('c', '@'), ('c', ''), ('c', 'not'), ('o', 'Eq'), ('c', 'not '), ('c', ''), ('c', '@'), ('c', '('), ('c', ', '), ('c', ')')]

SYNTAX = (
	SyntaxModule('SyntaxOps')
	# self.parsed = '' ... split('\n') ... strip('# \t') ... '\n' ... ' '
	.anchor(AST, 'Comment.__init__', {
		0: ('comment_init_now', 'bytes'), 2: ('comment_split_now', 'bytes'), 3: ('comment_strip_now', 'bytes'),
		6: ('comment_blank_now', 'bytes'), 9: ('comment_sep_now', 'bytes')})
	.anchor(AST, 'Comment.__str__', {})
	# 'u' == string[0]; int(string[3 + (1 if unsigned else 0):]) // 8
	.anchor(AST, 'FixedSizeInteger.__init__', {
		0: ('fsi_unsigned_char_now', 'char'), 1: ('fsi_unsigned_op_now', 'op'), 2: ('fsi_unsigned_index_now', 'Z'),
		3: ('fsi_skip_now', 'Z'), 4: ('fsi_skip_op_now', 'op'), 5: ('fsi_skip_unsigned_now', 'Z'), 6: ('fsi_skip_signed_now', 'Z'),
		7: ('fsi_div_op_now', 'op'), 8: ('fsi_div_now', 'Z')})
	.anchor(AST, 'FixedSizeInteger.__str__', {})
	.anchor(AST, 'FixedSizeBuffer.__init__', {})
	.anchor(AST, 'FixedSizeBuffer.__str__', {})
	.anchor(AST, 'Alias.__init__', {})
	.anchor(AST, 'Alias.__str__', {})
	.anchor(AST, 'Enum.__init__', {})
	.anchor(AST, 'Enum.__str__', {})
	.anchor(AST, 'EnumValue.__init__', {})
	.anchor(AST, 'EnumValue.__str__', {})
	.anchor(AST, 'Attribute.__init__', {})
	.anchor(AST, 'Attribute.__str__', {})
	.anchor(AST, '_format_attributes', {})
	.anchor(AST, 'Struct.__init__', {})
	.anchor(AST, 'Struct.__str__', {})
	.anchor(AST, 'StructField.__init__', {})
	.anchor(AST, 'StructField.__str__', {})
	.anchor(AST, 'StructInlinePlaceholder.__init__', {})
	.anchor(AST, 'StructInlinePlaceholder.__str__', {})
	.anchor(AST, 'Conditional.__init__', {})
	.anchor(AST, 'Conditional.__str__', {})
	.anchor(AST, 'Array.__init__', {})
	.anchor(AST, 'Array.__str__', {})
	# NL_type = '_NL' ... tab_len = 4
	.anchor(LARKPARSER, 'create_cats_lark_parser.CatbufferIndenter', {3: ('tab_len_now', 'Z')})
)
# the transformer callbacks (token order inside each rule); no holes: any change is an unrecognised shape
for _method in (
	'ESCAPED_STRING', 'DEC_NUMBER', 'HEX_NUMBER', 'FIXED_SIZE_INTEGER', 'fixed_size_buffer', 'comment', 'statement', '_remove_comments',
	'enum_attribute', 'enum_attributes', 'field_attribute', 'field_attributes', 'struct_attribute', 'struct_attributes', 'alias', 'enum',
	'enum_child', 'enum_value', 'struct', 'struct_child', 'struct_inline', 'struct_field', 'struct_field_const', 'struct_field_reserved',
	'struct_field_sizeof', 'struct_field_inline', 'conditional_expression', 'array_expression'):
	SYNTAX.anchor(LARKPARSER, f'create_cats_lark_parser.CatbufferTransformer.{_method}', {})


class TerminalsModule(GenModule):
	"""No ast anchors: the whole module text comes from the grammar reader."""

	def generate(self, shapes):
		values, problems = grammar_values()
		status = 'recognised' if not problems else 'unrecognised: ' + '; '.join(problems[:6])
		shapes.report[f'{GRAMMAR}::terminals'] = status
		return terminals_text(values, status), ([f'{GRAMMAR}::terminals'] if problems else [])


TERMINALS = TerminalsModule('GrammarTerminals')

MODULES = [TERMINALS, SYNTAX]
