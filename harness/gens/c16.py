"""Gen module for C16 (BIP32 / SLIP-10 derivation and the facades' path / key-pair rules)."""
from ..gen import GenModule

BIP32 = 'sdk/python/symbolchain/Bip32.py'
WRITER = 'sdk/python/symbolchain/BufferWriter.py'
TYPES = 'sdk/python/symbolchain/CryptoTypes.py'
SYMFACADE = 'sdk/python/symbolchain/facade/SymbolFacade.py'
NEMFACADE = 'sdk/python/symbolchain/facade/NemFacade.py'
SYMKEYPAIR = 'sdk/python/symbolchain/symbol/KeyPair.py'
NEMKEYPAIR = 'sdk/python/symbolchain/nem/KeyPair.py'

PATH_HOLES = {
	0: ('{0}_purpose', 'Z'), 1: ('{0}_mainnet_name', 'bytes'), 2: ('{0}_name_op', 'op'), 3: ('{0}_coin_main', 'Z'),
	4: ('{0}_coin_other', 'Z'), 5: ('{0}_change', 'Z'), 6: ('{0}_address_index', 'Z')}


def path_holes(prefix):
	return {index: (name.format(prefix), kind) for index, (name, kind) in PATH_HOLES.items()}


BIP32OPS = (
	GenModule('Bip32Ops')
	# hmac_result[0:PrivateKey.SIZE] / hmac_result[PrivateKey.SIZE:]
	.constexpr(TYPES, 'PrivateKey.SIZE', 'private_key_size')
	.anchor(BIP32, 'Bip32Node.__init__', {0: ('node_key_lo', 'nat')})
	# BufferWriter('big'); write_int(0, 1); write_bytes(key); write_int(0x80000000 | identifier, 4)
	.anchor(BIP32, 'Bip32Node.derive_one', {
		0: ('derive_order', 'endian'), 1: ('derive_pad_value', 'Z'), 2: ('derive_pad_w', 'nat'), 3: ('harden_flag', 'Z'),
		4: ('harden_op', 'op'), 5: ('derive_index_w', 'nat')})
	.anchor(BIP32, 'Bip32Node.derive_path', {})
	# (curve_name + ' seed').encode('utf8'), default curve name
	.anchor(BIP32, 'Bip32.__init__', {0: ('default_curve', 'bytes'), 3: ('seed_suffix', 'bytes')})
	.anchor(BIP32, 'Bip32.from_seed', {})
	.anchor(BIP32, 'Bip32.from_mnemonic', {})
	# value.to_bytes(count, self.byte_order), buffer += ...: no constants; any change here is a changed shape
	.anchor(WRITER, 'BufferWriter.__init__', {})
	.anchor(WRITER, 'BufferWriter.write_int', {})
	.anchor(WRITER, 'BufferWriter.write_bytes', {})
	# [44, 4343 if 'mainnet' == self.network.name else 1, account_id, 0, 0]
	.anchor(SYMFACADE, 'SymbolFacade.bip32_path', path_holes('sym'))
	.anchor(NEMFACADE, 'NemFacade.bip32_path', path_holes('nem'))
	.anchor(SYMFACADE, 'SymbolFacade.BIP32_CURVE_NAME', {0: ('sym_curve', 'bytes')})
	.anchor(NEMFACADE, 'NemFacade.BIP32_CURVE_NAME', {0: ('nem_curve', 'bytes')})
	# KeyPair(node.private_key) / KeyPair(PrivateKey(node.private_key.bytes[::-1])); nem KeyPair: _sk = private_key.bytes[::-1]
	.anchor(SYMFACADE, 'SymbolFacade.bip32_node_to_key_pair', {})
	.anchor(NEMFACADE, 'NemFacade.bip32_node_to_key_pair', {1: ('nem_facade_step_abs', 'Z')})
	.anchor(SYMKEYPAIR, 'KeyPair.__init__', {})
	.anchor(NEMKEYPAIR, 'KeyPair.__init__', {1: ('nem_keypair_step_abs', 'Z')})
	.anchor(NEMKEYPAIR, 'KeyPair.private_key', {1: ('nem_getter_step_abs', 'Z')})
)

MODULES = [BIP32OPS]
