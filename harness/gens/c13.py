"""Gen modules for C13 (ids)."""
from ..gen import GenModule

IDGEN = 'sdk/python/symbolchain/symbol/IdGenerator.py'
META = 'sdk/python/symbolchain/symbol/Metadata.py'
SYMNET = 'sdk/python/symbolchain/symbol/Network.py'

IDS = (
	GenModule('IdsOps')
	.constexpr(IDGEN, 'NAMESPACE_FLAG', 'ns_flag')
	.constexpr(SYMNET, 'Address.SIZE', 'address_size')
	.anchor(IDGEN, 'generate_mosaic_id', {
		0: ('mosaic_nonce_w', 'nat'), 1: ('mosaic_nonce_order', 'endian'), 2: ('mosaic_dig_lo', 'nat'), 3: ('mosaic_dig_hi', 'nat'),
		4: ('mosaic_dig_order', 'endian'), 5: ('mosaic_test_op', 'op'), 6: ('mosaic_upd_op', 'op')})
	.anchor(IDGEN, 'generate_namespace_id', {
		1: ('ns_parent_w', 'nat'), 2: ('ns_parent_order', 'endian'), 4: ('ns_dig_lo', 'nat'), 5: ('ns_dig_hi', 'nat'),
		6: ('ns_dig_order', 'endian'), 7: ('ns_set_op', 'op')})
	.anchor(IDGEN, 'is_valid_namespace_name', {
		1: ('alnum_a', 'char'), 2: ('alnum_op1', 'op'), 3: ('alnum_op2', 'op'), 4: ('alnum_z', 'char'),
		5: ('alnum_0', 'char'), 6: ('alnum_op3', 'op'), 7: ('alnum_op4', 'op'), 8: ('alnum_9', 'char'),
		13: ('name_extra_1', 'char'), 14: ('name_extra_2', 'char')})
	.anchor(IDGEN, 'generate_namespace_path', {0: ('path_root_parent', 'Z'), 1: ('path_sep', 'char')})
	.anchor(META, 'metadata_generate_key', {1: ('md_n', 'nat'), 2: ('md_idx', 'nat'), 3: ('md_op', 'op'), 4: ('md_mask', 'Z'), 5: ('md_order', 'endian')})
	.anchor(META, 'metadata_update_value', {1: ('md_len_op', 'op'), 2: ('md_xor_op', 'op')})
	.anchor(SYMNET, 'Address.to_namespace_id', {
		1: ('alias_test_idx', 'nat'), 2: ('alias_test_op', 'op'), 3: ('alias_test_mask', 'Z'), 5: ('alias_lo', 'nat'), 6: ('alias_hi', 'nat'),
		7: ('alias_order', 'endian')})
	.anchor(SYMNET, 'Address.from_namespace_id', {
		0: ('alias_inc_op', 'op'), 1: ('alias_inc', 'Z'), 3: ('alias_w', 'nat'), 4: ('alias_w_order', 'endian'), 6: ('alias_fill', 'Z'),
		8: ('alias_fill_op', 'op'), 9: ('alias_used', 'Z')})
)

MODULES = [IDS]
