"""Gen modules for C03 (shipped codec modules are exactly the generator output).

OutlineOps     string constants of sdk/python/generator (name fixes, the 'embedded_' prefix, type-hint prefixes, method names,
               result annotations, decorators, base-class spellings) through pinned anchors (harness/shapes/OutlineOps.json).
OutlineOrder   the ORDER in which TypeFormatter.generate_methods / FactoryClassFormatter.generate_methods emit their method slots
               (read off the append/extend statements; anything unrecognised becomes a slot name starting with '?', which no
               checked-in module can match).
OutlineSc/Nc   `sc_outline_actual` / `nc_outline_actual : module_outline`, read with Python's `ast` from the CHECKED-IN
               symbolchain/sc/__init__.py and nc/__init__.py: classes in source order with base, class-level assignments, TYPE_HINTS,
               methods (decorator, name, result annotation), and the factories with their mapping entries.  Fail closed: whatever is
               not recognised becomes a distinct `...Unrecognised` entry, so the kernel equality with `outline <schema>` fails.

The same Python objects are also rendered as text (`render_entries`, mirrored by Cats.Outline.render_outline) so that the check
can name the first differing line when the kernel equality fails."""
import ast

from ..common import GEN, REPO, write_if_changed
from ..gen import GenModule

G = 'sdk/python/generator/'
NF = G + 'name_formatting.py'
FF = G + 'FactoryFormatter.py'
PR = G + 'printers.py'
TF = G + 'TypeFormatter.py'
PF = G + 'PodTypeFormatter.py'
EF = G + 'EnumTypeFormatter.py'
SF = G + 'StructTypeFormatter.py'

MODULE_FILES = {
	'OutlineSc': ('sc_outline_actual', 'sdk/python/symbolchain/sc/__init__.py'),
	'OutlineNc': ('nc_outline_actual', 'sdk/python/symbolchain/nc/__init__.py'),
}

OUTLINE_OPS = (
	GenModule('OutlineOps')
	.anchor(NF, 'fix_name', {1: ('name_fix_1', 'string'), 2: ('name_fix_2', 'string'), 3: ('name_fix_suffix', 'string')})
	.anchor(NF, 'CAMEL_CASE_PATTERN', {0: ('camel_case_pattern', 'string')})
	.anchor(NF, 'underline_name', {0: ('underline_sep', 'string')})
	.anchor(FF, 'skip_embedded', {1: ('embedded_prefix', 'string'), 2: ('embedded_strip', 'string')})
	.anchor(FF, 'FactoryFormatter.typename', {0: ('factory_suffix', 'string')})
	.anchor(FF, 'FactoryClassFormatter.generate_deserializer', {0: ('fmn_deserialize', 'string'), 2: ('fma_deserialize', 'string')})
	.anchor(FF, 'FactoryClassFormatter.generate_create_by_name', {0: ('fmn_create_by_name', 'string'), 2: ('fma_create_by_name', 'string')})
	.anchor(PR, 'BuiltinPrinter.__init__', {
		1: ('hint_model_int', 'string'), 2: ('hint_model_bytes', 'string'), 3: ('hint_model_typed', 'string'), 4: ('hint_model_enum', 'string'),
		5: ('hint_model_struct', 'string')})
	.anchor(PR, 'ArrayPrinter.__init__', {1: ('hint_bytes_array', 'string')})
	.anchor(PR, 'TypedArrayPrinter.__init__', {1: ('hint_array_open', 'string'), 2: ('hint_array_close', 'string')})
	.anchor(PR, 'IntPrinter.__init__', {})
	.anchor(PR, 'IntPrinter.get_type', {0: ('ty_int', 'string')})
	.anchor(PR, 'ArrayPrinter.get_type', {0: ('ty_bytes', 'string')})
	.anchor(PR, 'TypedArrayPrinter.get_type', {0: ('ty_list_open', 'string'), 1: ('ty_list_close', 'string')})
	.anchor(TF, 'TypeFormatter.generate_ctor', {2: ('mn_ctor', 'string')})
	.anchor(TF, 'TypeFormatter.generate_comparer', {2: ('mn_comparer', 'string'), 3: ('mr_comparer', 'string')})
	.anchor(TF, 'TypeFormatter.generate_sort', {2: ('mn_sort', 'string'), 3: ('mr_sort', 'string')})
	.anchor(TF, 'TypeFormatter.generate_deserializer', {
		0: ('md_prefix_abstract', 'string'), 1: ('md_prefix_concrete', 'string'), 2: ('mn_deserialize', 'string'),
		5: ('mr_deserialize_abstract', 'string'), 7: ('ma_deserialize', 'string')})
	.anchor(TF, 'TypeFormatter.generate_serializer', {0: ('mn_serialize', 'string'), 1: ('mr_serialize', 'string')})
	.anchor(TF, 'TypeFormatter.generate_serializer_protected', {2: ('mn_serialize_protected', 'string')})
	.anchor(TF, 'TypeFormatter.generate_size', {2: ('mn_size', 'string'), 3: ('mr_size', 'string'), 4: ('ma_size', 'string')})
	.anchor(TF, 'TypeFormatter.generate_representation', {2: ('mn_str', 'string'), 3: ('mr_str', 'string')})
	.anchor(TF, 'TypeFormatter.generate_json', {2: ('mn_json', 'string')})
	.anchor(PF, 'PodTypeFormatter.get_fields', {0: ('pod_size_assign', 'string')})
	.anchor(PF, 'PodTypeFormatter.get_base_class', {0: ('pod_base_bytes', 'string'), 1: ('pod_base_int', 'string')})
	.anchor(PF, 'PodTypeFormatter.get_size_descriptor', {})
	.anchor(EF, 'EnumTypeFormatter.__init__', {0: ('enum_base_flag', 'string'), 1: ('enum_base_plain', 'string')})
	.anchor(EF, 'EnumTypeFormatter.get_base_class', {0: ('enum_base_open', 'string'), 1: ('enum_base_close', 'string')})
	.anchor(SF, 'filter_size_if_first', {3: ('first_size_name', 'string')})
	.anchor(SF, 'StructFormatter.create_getter_descriptor', {2: ('computed_suffix', 'string'), 6: ('ma_getter', 'string')})
	.anchor(SF, 'StructFormatter.create_setter_descriptor', {2: ('ma_setter_open', 'string'), 3: ('ma_setter_close', 'string')})
	.anchor(SF, 'StructFormatter.get_getter_descriptors', {})
	.anchor(SF, 'StructFormatter.generate_type_hints', {1: ('hints_base_open', 'string'), 2: ('hints_base_close', 'string')})
	.anchor(SF, 'StructFormatter.get_fields', {})
)
OUTLINE_OPS.header = 'From Coq Require Import String.\nFrom Symv Require Import Base.PyOps.'


# ---------------------------------------------------------------------------------------------------------------------
# Coq literals

def cstr(text):
	"""Coq string literal of printable ASCII text; None for anything else (the caller then emits an Unrecognised entry)."""
	if not isinstance(text, str) or not all(32 <= ord(c) < 127 for c in text):
		return None
	return '"' + text.replace('"', '""') + '"'


def cstr_or(text, fallback='?non-ascii'):
	return cstr(text) or cstr(fallback)


def clist(items):
	return '[' + '; '.join(items) + ']'


# ---------------------------------------------------------------------------------------------------------------------
# method slot order (generate_methods)

def _self_call(node):
	"""`self.generate_xxx()` -> 'xxx' (None otherwise)."""
	if isinstance(node, ast.Call) and not node.args and not node.keywords and isinstance(node.func, ast.Attribute) \
		and isinstance(node.func.value, ast.Name) and node.func.value.id == 'self' and node.func.attr.startswith('generate_'):
		return node.func.attr[len('generate_'):]
	return None


def slot_order(function):
	"""Order in which a generate_methods function adds method slots to `methods` (a list of slot names).
	Recognised statements: `methods = []`, `x = self.generate_S()`, `methods.extend(x)`, `methods.append(self.generate_S())`,
	`_append_if_not_none(methods, self.generate_S())`, `return methods`.  Anything else yields a '?...' slot."""
	if function is None:
		return ['?missing']
	order = []
	variables = {}
	body = list(function.body)
	if body and isinstance(body[0], ast.Expr) and isinstance(body[0].value, ast.Constant) and isinstance(body[0].value.value, str):
		body = body[1:]
	for statement in body:
		if isinstance(statement, ast.Assign) and len(statement.targets) == 1 and isinstance(statement.targets[0], ast.Name):
			target = statement.targets[0].id
			if target == 'methods' and isinstance(statement.value, ast.List) and not statement.value.elts and not order:
				continue
			slot = _self_call(statement.value)
			if slot and target != 'methods':
				variables[target] = slot
				continue
		elif isinstance(statement, ast.Return) and isinstance(statement.value, ast.Name) and statement.value.id == 'methods':
			continue
		elif isinstance(statement, ast.Expr) and isinstance(statement.value, ast.Call):
			call = statement.value
			func = call.func
			if isinstance(func, ast.Name) and func.id == '_append_if_not_none' and len(call.args) == 2 and not call.keywords \
				and isinstance(call.args[0], ast.Name) and call.args[0].id == 'methods' and _self_call(call.args[1]):
				order.append(_self_call(call.args[1]))
				continue
			if isinstance(func, ast.Attribute) and isinstance(func.value, ast.Name) and func.value.id == 'methods' \
				and len(call.args) == 1 and not call.keywords:
				if func.attr == 'append' and _self_call(call.args[0]):
					order.append(_self_call(call.args[0]))
					continue
				if func.attr == 'extend' and isinstance(call.args[0], ast.Name) and call.args[0].id in variables:
					order.append(variables.pop(call.args[0].id))
					continue
		order.append(f'?unrecognised-statement-line-{getattr(statement, "lineno", 0)}')
	for name in variables:
		order.append(f'?never-added-{name}')
	return order


def order_text(shapes):
	from ..common import find_def
	lines = ['(* REGENERATED from the generate_methods functions of sdk/python/generator by harness/gens/c03.py -- do not edit *)',
		'From Coq Require Import String List.', 'Import ListNotations.', 'Open Scope string_scope.', '']
	for coqname, relpath, qualname in (
		('method_order', TF, 'TypeFormatter.generate_methods'), ('factory_method_order', FF, 'FactoryClassFormatter.generate_methods')):
		tree = shapes.tree(relpath)
		node = find_def(tree, qualname) if tree is not None else None
		order = slot_order(node if isinstance(node, ast.FunctionDef) else None)
		shapes.report[f'{relpath}::{qualname}'] = 'order:' + ','.join(order)
		lines.append(f'Definition {coqname} : list string := {clist([cstr_or(slot) for slot in order])}.')
	return '\n'.join(lines) + '\n'


# ---------------------------------------------------------------------------------------------------------------------
# outline of a checked-in module

def _int_value(node):
	if isinstance(node, ast.Constant) and isinstance(node.value, int) and not isinstance(node.value, bool):
		return node.value
	if isinstance(node, ast.UnaryOp) and isinstance(node.op, ast.USub) and isinstance(node.operand, ast.Constant) \
		and isinstance(node.operand.value, int) and not isinstance(node.operand.value, bool):
		return -node.operand.value
	return None


def _ref(node):
	"""`A.b` -> ('A', 'b')."""
	if isinstance(node, ast.Attribute) and isinstance(node.value, ast.Name):
		return (node.value.id, node.attr)
	return None


def _method(node):
	if len(node.decorator_list) > 1:
		return ('unrecognised', f'several decorators on {node.name} (line {node.lineno})')
	deco = '@' + ast.unparse(node.decorator_list[0]) if node.decorator_list else ''
	ret = ast.unparse(node.returns) if node.returns is not None else ''
	return ('meth', deco, node.name, ret)


def _class_field(statement):
	line = getattr(statement, 'lineno', 0)
	if isinstance(statement, ast.Assign) and len(statement.targets) == 1 and isinstance(statement.targets[0], ast.Name):
		name = statement.targets[0].id
		value = _int_value(statement.value)
		if value is not None:
			return ('assign', name, value)
		if name == 'TYPE_HINTS' and isinstance(statement.value, ast.Dict):
			base = None
			hints = []
			for index, (key, val) in enumerate(zip(statement.value.keys, statement.value.values)):
				if key is None:
					ref = _ref(val)
					if index != 0 or not ref or ref[1] != 'TYPE_HINTS':
						return ('unrecognised', f'TYPE_HINTS unpacking at line {line}')
					base = ref[0]
				elif isinstance(key, ast.Constant) and isinstance(key.value, str) and isinstance(val, ast.Constant) and isinstance(val.value, str):
					hints.append((key.value, val.value))
				else:
					return ('unrecognised', f'TYPE_HINTS entry at line {line}')
			return ('hints', base, hints)
		return ('unrecognised', f'assignment to {name} at line {line}')
	if isinstance(statement, ast.AnnAssign) and isinstance(statement.target, ast.Name) and statement.simple == 1 and statement.value is not None:
		value = _int_value(statement.value)
		ref = _ref(statement.value)
		typename = ast.unparse(statement.annotation)
		if value is not None:
			return ('const', statement.target.id, typename, ('int', value))
		if ref:
			return ('const', statement.target.id, typename, ('ref',) + ref)
	return ('unrecognised', f'{type(statement).__name__} at line {line}')


def _single_assign(function, name):
	found = [s for s in function.body if isinstance(s, ast.Assign) and len(s.targets) == 1 and isinstance(s.targets[0], ast.Name)
		and s.targets[0].id == name]
	return found[0].value if len(found) == 1 else None


def _factory(node):
	"""Factory class: no class-level assignments, two classmethods, `mapping` dictionaries inside."""
	methods = [_method(item) for item in node.body]
	if len(node.body) != 2:
		return ('unrecognised', f'factory-like class {node.name} with {len(node.body)} members')
	deserialize, create = node.body
	parent = _single_assign(deserialize, 'parent')
	mapping = _single_assign(deserialize, 'mapping')
	discriminator = _single_assign(deserialize, 'discriminator')
	names = _single_assign(create, 'mapping')
	if not (isinstance(parent, ast.Call) and isinstance(parent.func, ast.Name) and not parent.args and not parent.keywords):
		return ('unrecognised', f'{node.name}: parent assignment')
	if not isinstance(mapping, ast.Dict) or not isinstance(names, ast.Dict) or discriminator is None:
		return ('unrecognised', f'{node.name}: mapping / discriminator')
	entries = []
	for key, val in zip(mapping.keys, mapping.values):
		refs = [_ref(element) for element in key.elts] if isinstance(key, ast.Tuple) else [_ref(key)]
		if not all(refs) or not isinstance(val, ast.Name):
			return ('unrecognised', f'{node.name}: mapping entry at line {getattr(val, "lineno", 0)}')
		entries.append((refs, val.id))
	disc_refs = [_ref(element) for element in discriminator.elts] if isinstance(discriminator, ast.Tuple) else [_ref(discriminator)]
	if not all(ref and ref[0] == 'parent' for ref in disc_refs):
		return ('unrecognised', f'{node.name}: discriminator expression')
	by_name = []
	for key, val in zip(names.keys, names.values):
		if not (isinstance(key, ast.Constant) and isinstance(key.value, str) and isinstance(val, ast.Name)):
			return ('unrecognised', f'{node.name}: create_by_name entry')
		by_name.append((key.value, val.id))
	return ('factory', node.name, parent.func.id, [ref[1] for ref in disc_refs], entries, by_name, methods)


def extract_entries(source):
	"""Entries of a generated module in source order (see the module docstring)."""
	try:
		tree = ast.parse(source)
	except SyntaxError as ex:
		return [('unrecognised', f'syntax error at line {ex.lineno}')]
	entries = []
	seen_class = False
	for node in tree.body:
		if isinstance(node, ast.ClassDef):
			seen_class = True
			if node.keywords or len(node.bases) > 1 or node.decorator_list:
				entries.append(('unrecognised', f'class header of {node.name}'))
				continue
			base = '(' + ast.unparse(node.bases[0]) + ')' if node.bases else ''
			is_factory = not node.bases and node.body and all(
				isinstance(item, ast.FunctionDef) and [ast.unparse(d) for d in item.decorator_list] == ['classmethod'] for item in node.body)
			if is_factory:
				entries.append(_factory(node))
				continue
			fields = []
			methods = []
			for item in node.body:
				if isinstance(item, ast.FunctionDef):
					methods.append(_method(item))
				elif methods:
					fields.append(('unrecognised', f'class-level statement after a method at line {getattr(item, "lineno", 0)}'))
				else:
					fields.append(_class_field(item))
			entries.append(('class', node.name, base, fields, methods))
		elif not seen_class and isinstance(node, (ast.Import, ast.ImportFrom)):
			continue
		elif not seen_class and isinstance(node, ast.Assign) and len(node.targets) == 1 and isinstance(node.targets[0], ast.Name) \
			and node.targets[0].id == 'StrBytes':
			continue
		else:
			entries.append(('unrecognised', f'top-level {type(node).__name__} at line {getattr(node, "lineno", 0)}'))
	return entries


# --- Gallina printer

def _coq_meth(meth):
	if meth[0] != 'meth' or None in (cstr(meth[1]), cstr(meth[2]), cstr(meth[3])):
		return f'{{| m_deco := "?unrecognised"; m_name := {cstr_or(str(meth[1:]))}; m_ret := "" |}}'
	return f'{{| m_deco := {cstr(meth[1])}; m_name := {cstr(meth[2])}; m_ret := {cstr(meth[3])} |}}'


def _coq_z(value):
	return f'({value})%Z'


def _coq_field(field):
	kind = field[0]
	if kind == 'assign' and cstr(field[1]):
		return f'(CfAssign {cstr(field[1])} {_coq_z(field[2])})'
	if kind == 'const' and cstr(field[1]) and cstr(field[2]):
		value = field[3]
		if value[0] == 'int':
			return f'(CfConst {cstr(field[1])} {cstr(field[2])} (OvInt {_coq_z(value[1])}))'
		if cstr(value[1]) and cstr(value[2]):
			return f'(CfConst {cstr(field[1])} {cstr(field[2])} (OvRef {cstr(value[1])} {cstr(value[2])}))'
	if kind == 'hints' and (field[1] is None or cstr(field[1])) and all(cstr(k) and cstr(v) for k, v in field[2]):
		base = 'None' if field[1] is None else f'(Some {cstr(field[1])})'
		return f'(CfHints {base} {clist([f"({cstr(k)}, {cstr(v)})" for k, v in field[2]])})'
	return f'(CfUnrecognised {cstr_or(str(field[1:]))})'


def coq_entry(entry):
	kind = entry[0]
	if kind == 'class' and cstr(entry[1]) and cstr(entry[2]) is not None:
		return '(EClass {| co_name := %s; co_base := %s; co_fields := %s; co_methods := %s |})' % (
			cstr(entry[1]), cstr(entry[2]), clist([_coq_field(f) for f in entry[3]]), clist([_coq_meth(m) for m in entry[4]]))
	if kind == 'factory':
		_, name, parent, disc, entries, by_name, methods = entry
		strings = [name, parent] + disc + [x for refs, child in entries for ref in refs for x in ref] + [child for _, child in entries] \
			+ [x for pair in by_name for x in pair]
		if all(cstr(text) for text in strings):
			return '(EFactory {| fo_name := %s; fo_parent := %s; fo_discriminator := %s; fo_entries := %s; fo_names := %s; fo_methods := %s |})' % (
				cstr(name), cstr(parent), clist([cstr(d) for d in disc]),
				clist(['(%s, %s)' % (clist([f'({cstr(a)}, {cstr(b)})' for a, b in refs]), cstr(child)) for refs, child in entries]),
				clist([f'({cstr(k)}, {cstr(v)})' for k, v in by_name]), clist([_coq_meth(m) for m in methods]))
	return f'(EUnrecognised {cstr_or(str(entry[1:])[:200])})'


def outline_text(coqname, entries, origin):
	lines = [f'(* REGENERATED from the checked-in {origin} (Python ast) by harness/gens/c03.py -- do not edit *)',
		'From Coq Require Import String ZArith List.', 'From Symv Require Import Cats.Outline.', 'Import ListNotations.',
		'Open Scope string_scope.', '']
	names = []
	for index, entry in enumerate(entries):
		lines.append(f'Definition {coqname}_e{index} : entry := {coq_entry(entry)}.')
		names.append(f'{coqname}_e{index}')
	lines.append('')
	lines.append(f'Definition {coqname} : module_outline := {clist(names)}.')
	return '\n'.join(lines) + '\n'


# --- text rendering (must mirror Cats.Outline.render_outline)

def _render_meth(meth):
	if meth[0] != 'meth':
		return f'  def ?unrecognised {meth[1:]}'
	return f'  def [{meth[1]}] {meth[2]} -> [{meth[3]}]'


def _render_field(field):
	kind = field[0]
	if kind == 'assign':
		return [f'  {field[1]} = {field[2]}']
	if kind == 'const':
		value = str(field[3][1]) if field[3][0] == 'int' else f'{field[3][1]}.{field[3][2]}'
		return [f'  {field[1]}: {field[2]} = {value}']
	if kind == 'hints':
		return ['  TYPE_HINTS' + (f' **{field[1]}' if field[1] is not None else '')] + [f'    {k}: {v}' for k, v in field[2]]
	return [f'  ?unrecognised {field[1:]}']


def render_entries(entries):
	lines = []
	for entry in entries:
		kind = entry[0]
		if kind == 'class':
			lines.append(f'class {entry[1]}{entry[2]}')
			for field in entry[3]:
				lines += _render_field(field)
			lines += [_render_meth(m) for m in entry[4]]
		elif kind == 'factory':
			_, name, parent, disc, items, by_name, methods = entry
			lines.append(f'factory {name} of {parent} by ({", ".join(disc)})')
			for refs, child in items:
				lines.append('  (' + ', '.join(f'{a}.{b}' for a, b in refs) + f') -> {child}')
			lines += [f'  {k} => {v}' for k, v in by_name]
			lines += [_render_meth(m) for m in methods]
		else:
			lines.append(f'?unrecognised {entry[1:]}')
	return lines


def actual_entries(module):
	"""Entries of the checked-in module of the CURRENT working tree."""
	_, relpath = MODULE_FILES[module]
	return extract_entries((REPO / relpath).read_text(encoding='utf8'))


def _extra(shapes):
	write_if_changed(GEN / 'OutlineOrder.v', order_text(shapes))
	for module, (coqname, relpath) in MODULE_FILES.items():
		try:
			entries = extract_entries((REPO / relpath).read_text(encoding='utf8'))
			bad = sum(1 for entry in entries if entry[0] == 'unrecognised')
			shapes.report[f'outline:{relpath}'] = f'extracted:{len(entries)} entries, {bad} unrecognised'
		except (OSError, UnicodeDecodeError, RecursionError, ValueError) as ex:
			entries = [('unrecognised', f'{type(ex).__name__}')]
			shapes.report[f'outline:{relpath}'] = f'not-extracted:{type(ex).__name__}: {ex}'
		write_if_changed(GEN / f'{module}.v', outline_text(coqname, entries, relpath))


OUTLINE_OPS.extra = _extra

MODULES = [OUTLINE_OPS]
