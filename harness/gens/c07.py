"""Gen modules for C07 (signatures) and C14 (shared keys / messages):

* Gen/KeyPairOps.v  -- nem/KeyPair.py and symbol/KeyPair.py (slices, clamp masks, canonicity test, refusals), external/ed25519.py
                       (field / group order, curve constant, clamp of the shared-secret scalar, canonicity / subgroup tests),
                       SharedKey.py, symbol/SharedKey.py, nem/SharedKey.py (salt, length, labels)
* Gen/PayloadOps.v  -- facade/SymbolFacade.py (header / aggregate window, type test, cosignature version), VotingKeysGenerator.py
* Gen/MessageOps.v  -- impl/CipherHelpers.py, Cipher.py, symbol/MessageEncoder.py, nem/MessageEncoder.py (sizes, markers, layout)

Anchors with an empty hole map are pinned verbatim: any changed constant or operator in them makes the anchor unrecognised."""
from ..gen import GenModule

P = 'sdk/python/symbolchain/'
NEMKP = P + 'nem/KeyPair.py'
SYMKP = P + 'symbol/KeyPair.py'
ED = P + 'external/ed25519.py'
SK = P + 'SharedKey.py'
SYMSK = P + 'symbol/SharedKey.py'
NEMSK = P + 'nem/SharedKey.py'
CRYPTO = P + 'CryptoTypes.py'
FACADE = P + 'facade/SymbolFacade.py'
NEMFACADE = P + 'facade/NemFacade.py'
NEMTF = P + 'nem/TransactionFactory.py'
VOTING = P + 'symbol/VotingKeysGenerator.py'
SC = P + 'sc/__init__.py'
HELPERS = P + 'impl/CipherHelpers.py'
CIPHER = P + 'Cipher.py'
SYMME = P + 'symbol/MessageEncoder.py'
NEMME = P + 'nem/MessageEncoder.py'
WRITER = P + 'BufferWriter.py'
NC = P + 'nc/__init__.py'

KEYPAIR_OPS = (
	GenModule('KeyPairOps')
	# --- external/ed25519.py
	.constexpr(ED, 'b', 'ed_b')
	.constexpr(ED, 'q', 'ed_q')
	.constexpr(ED, 'l_', 'ed_l')
	.anchor(ED, 'd', {1: ('ed_d_num', 'Z'), 3: ('ed_d_den', 'Z')})
	.anchor(ED, 'I_', {0: ('ed_i_base', 'Z'), 2: ('ed_i_sub', 'Z'), 4: ('ed_i_div', 'Z')})
	.anchor(ED, 'By', {0: ('ed_by_num', 'Z'), 2: ('ed_by_den', 'Z')})
	.anchor(ED, 'B', {})
	.anchor(ED, 'ident', {})
	.anchor(ED, 'pow2', {})
	.anchor(ED, 'inv', {})
	.anchor(ED, 'xrecover', {})
	.anchor(ED, 'edwards_add', {})
	.anchor(ED, 'edwards_double', {})
	.anchor(ED, 'scalarmult', {})
	.anchor(ED, 'encodepoint', {})
	.anchor(ED, 'bit', {})
	.anchor(ED, 'isoncurve', {})
	.anchor(ED, 'decodepoint', {})
	.anchor(ED, 'iscanonical', {0: ('can_base', 'Z'), 3: ('can_lo', 'Z'), 5: ('can_hi_sub', 'Z'), 6: ('can_cmp', 'op')})
	.anchor(ED, 'isinmainsubgroup', {
		1: ('ms_zero', 'Z'), 2: ('ms_x_cmp', 'op'), 3: ('ms_x_idx', 'nat'), 4: ('ms_y_idx', 'nat'), 5: ('ms_yz_cmp', 'op'), 6: ('ms_z_idx', 'nat')})
	.anchor(ED, 'derive_shared_secret_unsafe', {
		4: ('dh_top_base', 'Z'), 7: ('dh_top_sub', 'Z'), 9: ('dh_bit_base', 'Z'), 12: ('dh_lo', 'Z'), 14: ('dh_hi_sub', 'Z')})
	# --- SharedKey.py and the per-network wrappers
	.anchor(SK, 'SharedKey._derive_shared_key', {0: ('sk_salt_len', 'nat'), 1: ('sk_out_len', 'nat')})
	.anchor(SYMSK, 'SharedKey.derive_shared_key', {0: ('sk_sym_label', 'bytes')})
	.anchor(NEMSK, 'SharedKey.derive_shared_key', {2: ('sk_nem_label', 'bytes')})
	.anchor(NEMSK, 'SharedKey.derive_shared_key_deprecated', {2: ('sk_dep_op', 'op'), 3: ('sk_dep_len', 'nat')})
	# --- nem/KeyPair.py
	.anchor(NEMKP, '_generate_nonce', {0: ('kp_nonce_from', 'nat')})
	.anchor(NEMKP, '_is_reduced_s', {1: ('kp_reduce_pad', 'nat'), 2: ('kp_reduced_cmp', 'op')})
	.anchor(NEMKP, '_is_canonical_s', {0: ('kp_zero_s_cmp', 'op'), 1: ('kp_zero_s_len', 'nat'), 2: ('kp_zero_s_result', 'bool')})
	.anchor(NEMKP, 'KeyPair.__init__', {2: ('kp_pub_scalar_to', 'nat')})
	.anchor(NEMKP, 'KeyPair.private_key', {})
	.anchor(NEMKP, 'KeyPair.public_key', {})
	.anchor(NEMKP, 'KeyPair.sign', {
		1: ('kp_sign_scalar_to', 'nat'),
		2: ('kp_clamp_i0', 'nat'), 3: ('kp_clamp_op0', 'op'), 4: ('kp_clamp_m0', 'Z'),
		5: ('kp_clamp_i1', 'nat'), 6: ('kp_clamp_op1', 'op'), 7: ('kp_clamp_m1', 'Z'),
		8: ('kp_clamp_i2', 'nat'), 9: ('kp_clamp_op2', 'op'), 10: ('kp_clamp_m2', 'Z')})
	.anchor(NEMKP, 'Verifier.__init__', {0: ('kp_zero_key_len', 'nat'), 1: ('kp_zero_key_cmp', 'op')})
	.anchor(NEMKP, 'Verifier.verify', {
		0: ('kp_sig_r_to', 'nat'), 1: ('kp_sig_s_from', 'nat'), 3: ('kp_bad_s_result', 'bool'), 5: ('kp_bad_key_result', 'bool'),
		6: ('kp_final_cmp', 'op')})
	# --- symbol/KeyPair.py (delegates to `cryptography`; only the SDK's own checks are regenerated)
	.anchor(SYMKP, 'KeyPair.__init__', {})
	.anchor(SYMKP, 'KeyPair.public_key', {})
	.anchor(SYMKP, 'KeyPair.sign', {})
	.anchor(SYMKP, 'Verifier.__init__', {0: ('skp_zero_key_len', 'nat'), 1: ('skp_zero_key_cmp', 'op')})
	.anchor(SYMKP, 'Verifier.verify', {0: ('skp_ok_result', 'bool'), 1: ('skp_bad_result', 'bool')})
)

PAYLOAD_OPS = (
	GenModule('PayloadOps')
	.constexpr(CRYPTO, 'Signature.SIZE', 'pl_signature_size')
	.constexpr(CRYPTO, 'PublicKey.SIZE', 'pl_public_key_size')
	.constexpr(CRYPTO, 'Hash256.SIZE', 'pl_hash256_size')
	.constexpr(SC, 'TransactionType.AGGREGATE_BONDED', 'pl_agg_bonded_type')
	.constexpr(SC, 'TransactionType.AGGREGATE_COMPLETE', 'pl_agg_complete_type')
	.constexpr(NC, 'TransactionType.MULTISIG', 'pl_nem_multisig_type')
	.anchor(FACADE, 'TRANSACTION_HEADER_SIZE', {2: ('pl_hdr_size_w', 'Z'), 4: ('pl_hdr_reserved1_w', 'Z'), 8: ('pl_hdr_reserved2_w', 'Z')})
	.anchor(FACADE, 'AGGREGATE_HASHED_SIZE', {2: ('pl_agg_version_w', 'Z'), 4: ('pl_agg_max_fee_w', 'Z'), 6: ('pl_agg_deadline_w', 'Z')})
	.anchor(FACADE, 'SymbolFacade._is_aggregate_transaction', {
		0: ('pl_type_off_op', 'op'), 1: ('pl_type_off_skip', 'Z'), 2: ('pl_type_hi_op', 'op'), 3: ('pl_type_hi_inc', 'Z'),
		4: ('pl_type_shift_op', 'op'), 5: ('pl_type_shift', 'Z'), 6: ('pl_type_combine_op', 'op')})
	.anchor(FACADE, 'SymbolFacade._transaction_data_buffer', {0: ('pl_window_end_op', 'op')})
	.anchor(FACADE, 'SymbolFacade.extract_signing_payload', {})
	.anchor(FACADE, 'SymbolFacade.sign_transaction', {})
	.anchor(FACADE, 'SymbolFacade.verify_transaction', {})
	.anchor(FACADE, 'SymbolFacade.cosign_transaction_hash', {1: ('pl_cosig_version', 'Z')})
	.anchor(FACADE, 'SymbolFacade.cosign_transaction', {})
	.anchor(NEMFACADE, 'NemFacade.extract_signing_payload', {})
	.anchor(NEMFACADE, 'NemFacade.sign_transaction', {})
	.anchor(NEMFACADE, 'NemFacade.verify_transaction', {})
	.anchor(NEMTF, 'TransactionFactory.to_non_verifiable_transaction', {})
	.anchor(WRITER, 'BufferWriter.__init__', {0: ('bw_order', 'endian')})
	.anchor(WRITER, 'BufferWriter.write_int', {})
	.anchor(WRITER, 'BufferWriter.write_bytes', {})
	.anchor(VOTING, 'VotingKeysGenerator.generate', {
		0: ('vk_start_w', 'nat'), 1: ('vk_end_w', 'nat'), 2: ('vk_reserved1', 'Z'), 3: ('vk_reserved1_w', 'nat'),
		4: ('vk_reserved2', 'Z'), 5: ('vk_reserved2_w', 'nat'), 6: ('vk_level_start_w', 'nat'), 7: ('vk_level_end_w', 'nat'),
		8: ('vk_range_end_op', 'op'), 9: ('vk_range_end_inc', 'Z'), 10: ('vk_identifier_w', 'nat')})
)

MESSAGE_OPS = (
	GenModule('MessageOps')
	.constexpr(HELPERS, 'GCM_IV_SIZE', 'mf_gcm_iv_size')
	.constexpr(HELPERS, 'CBC_IV_SIZE', 'mf_cbc_iv_size')
	.constexpr(HELPERS, 'SALT_SIZE', 'mf_salt_size')
	.constexpr(CIPHER, 'AesGcmCipher.TAG_SIZE', 'mf_tag_size')
	.constexpr(CRYPTO, 'PublicKey.SIZE', 'mf_public_key_size')
	.constexpr(NC, 'MessageType.ENCRYPTED', 'mf_nem_encrypted')
	.anchor(HELPERS, '_decode', {0: ('mf_iv_end_op', 'op'), 1: ('mf_data_from_op', 'op')})
	.anchor(HELPERS, 'decode_aes_gcm', {})
	.anchor(HELPERS, 'decode_aes_cbc', {})
	.anchor(HELPERS, 'encode_aes_gcm', {0: ('mf_tag_start_op', 'op')})
	.anchor(HELPERS, 'encode_aes_cbc', {})
	.anchor(CIPHER, 'AesGcmCipher.encrypt', {})
	.anchor(CIPHER, 'AesGcmCipher.decrypt', {0: ('mf_dec_tag_start_op', 'op')})
	.anchor(SYMME, 'DELEGATION_MARKER', {0: ('mf_delegation_marker_hex', 'string')})
	.anchor(SYMME, 'MessageEncoder.try_decode', {
		0: ('mf_plain_marker', 'Z'), 1: ('mf_plain_cmp', 'op'), 2: ('mf_plain_idx', 'nat'), 3: ('mf_plain_skip', 'nat'), 4: ('mf_plain_ok', 'bool'),
		6: ('mf_deleg_first', 'Z'), 7: ('mf_deleg_first_cmp', 'op'), 8: ('mf_deleg_idx', 'nat'), 9: ('mf_deleg_cmp', 'op'),
		10: ('mf_deleg_marker_len', 'nat'), 13: ('mf_deleg_ok', 'bool'), 17: ('mf_not_decoded', 'bool')})
	.anchor(SYMME, 'MessageEncoder.encode', {0: ('mf_plain_prefix', 'bytes')})
	.anchor(SYMME, 'MessageEncoder.encode_persistent_harvesting_delegation', {})
	.anchor(SYMME, 'MessageEncoder.try_decode_deprecated', {
		2: ('mf_dep_marker', 'Z'), 3: ('mf_dep_cmp', 'op'), 4: ('mf_dep_idx', 'nat'), 5: ('mf_dep_prefix', 'Z'), 7: ('mf_dep_skip', 'nat')})
	.anchor(SYMME, 'MessageEncoder.encode_deprecated', {2: ('mf_dep_enc_prefix', 'Z'), 4: ('mf_dep_enc_skip', 'nat')})
	.anchor(NEMME, 'MessageEncoder.try_decode', {0: ('mf_nem_type_cmp', 'op'), 2: ('mf_nem_gcm_ok', 'bool'), 3: ('mf_nem_cbc_ok', 'bool'), 9: ('mf_nem_not_decoded', 'bool')})
	.anchor(NEMME, 'MessageEncoder.encode', {})
	.anchor(NEMME, 'MessageEncoder.encode_deprecated', {})
)

MODULES = [KEYPAIR_OPS, PAYLOAD_OPS, MESSAGE_OPS]
