"""Gen module for C18 (generators/util.py: build_factory_map, extend_models and the ast.py / DisplayType.py predicates they read).

DeriveOps   operators / constants of the anchor functions.  Besides the kinds of harness/gen.py two more kinds are rendered here:
            'conn'  a boolean connective (`and` / `or`)               -> Gallina `bool -> bool -> bool` (andb / orb)
            'memb'  a membership / identity test polarity              -> Gallina `bool` (`not in`, `is not` = true; `in`, `is` = false)
            The anchors are pinned on the repaired tree (D8 fixed): on a tree where `_process_struct` still has the old shape the
            anchor is reported `shape-changed`, the pinned operators are used and the correspondence decides."""
from ..gen import GenModule, render as base_render

UTIL = 'catbuffer/parser/catparser/generators/util.py'
AST = 'catbuffer/parser/catparser/ast.py'
DT = 'catbuffer/parser/catparser/DisplayType.py'


def render(kind, value):
	if kind == 'conn':
		return {'And': 'andb', 'Or': 'orb'}[value], 'bool -> bool -> bool'
	if kind == 'memb':
		return {'NotIn': 'true', 'IsNot': 'true', 'In': 'false', 'Is': 'false'}[value], 'bool'
	return base_render(kind, value)


class DeriveGen(GenModule):
	"""GenModule.generate with the two extra hole kinds (same recognition rules: atoms outside holes must equal the pinned ones)."""

	def generate(self, shapes):
		lines = [f'(* REGENERATED from {self.name} anchors in /repo by harness/gens/c18.py -- do not edit *)', self.header, '']
		unrecognised = []
		for relpath, qualname, holes in self.anchors:
			key = f'{relpath}::{qualname}'
			pinned = shapes.pinned.get(key)
			if pinned is None:
				raise RuntimeError(f'anchor {key} is not pinned (run: run.py pin)')
			pinned_atoms = [tuple(atom) for atom in pinned['atoms']]
			atoms = shapes.atoms(relpath, qualname)
			use = None
			if atoms is not None:
				same_outside = len(atoms) == len(pinned_atoms) and all(
					(list(a) == list(p) or i in holes) and a[0] == p[0] for i, (a, p) in enumerate(zip(atoms, pinned_atoms)))
				if same_outside:
					try:
						for index, (_, kind) in holes.items():
							render(kind, atoms[index][1])
						use = atoms
					except (ValueError, KeyError, IndexError, TypeError):
						shapes.report[key] = 'hole-value-not-translatable'
				else:
					shapes.report[key] = 'atoms-changed-outside-holes'
			if use is None:
				unrecognised.append(key)
				use = pinned_atoms
			lines.append(f'(* {key}: {shapes.report.get(key)} *)')
			for index, (coqname, kind) in sorted(holes.items()):
				text, typ = render(kind, use[index][1])
				lines.append(f'Definition {coqname} : {typ} := {text}.')
		constants = GenModule(self.name, header='')
		constants.constexprs = self.constexprs
		text, more = constants.generate(shapes)
		lines += [line for line in text.split('\n')[1:] if line.strip()]
		return '\n'.join(lines) + '\n', unrecognised + more


DERIVE = (
	DeriveGen('DeriveOps')
	# DisplayType: the enumeration values and the array test
	.constexpr(DT, 'DisplayType.UNSET', 'dt_unset')
	.constexpr(DT, 'DisplayType.INTEGER', 'dt_integer')
	.constexpr(DT, 'DisplayType.BYTE_ARRAY', 'dt_byte_array')
	.constexpr(DT, 'DisplayType.TYPED_ARRAY', 'dt_typed_array')
	.constexpr(DT, 'DisplayType.ENUM', 'dt_enum')
	.constexpr(DT, 'DisplayType.STRUCT', 'dt_struct')
	.anchor(DT, 'DisplayType.is_array', {0: ('dt_is_array_test', 'memb')})
	# ast.py predicates read by util.py
	.anchor(AST, '_lookup_attribute_value', {})
	.anchor(AST, 'Attribute.__init__', {})
	.anchor(AST, 'Alias.display_type', {})
	.anchor(AST, 'Struct.is_abstract', {})
	.anchor(AST, 'Struct.is_aligned', {0: ('attr_is_aligned', 'string')})
	.anchor(AST, 'Struct.discriminator', {0: ('attr_discriminator', 'string')})
	.anchor(AST, 'Struct.initializers', {1: ('init_target_idx', 'nat'), 2: ('init_value_idx', 'nat'), 3: ('attr_initializes', 'string')})
	.anchor(AST, 'StructField.is_size_reference', {})
	.anchor(AST, 'StructField.display_type', {})
	.anchor(AST, 'StructField.size', {})
	.anchor(AST, 'Array.display_type', {1: ('arr_byte_elem_size', 'Z'), 2: ('arr_byte_elem_cmp', 'op')})
	# build_factory_map: `STRUCT != display_type or not factory_type`, `not in factory_map`, the two name matches
	.anchor(UTIL, 'FactoryDescriptor.__init__', {})
	.anchor(UTIL, 'build_factory_map', {
		0: ('bfm_skip_conn', 'conn'), 1: ('bfm_skip_cmp', 'op'), 3: ('bfm_new_key_test', 'memb'),
		4: ('bfm_init_match', 'op'), 5: ('bfm_field_match', 'op')})
	# extend_models
	.anchor(UTIL, 'AstFieldExtensions.__init__', {})
	.anchor(UTIL, '_find_field_by_name', {0: ('ffn_match', 'op')})
	.anchor(UTIL, '_bind_size_fields', {0: ('bsf_array_conn', 'conn')})
	# `TYPED_ARRAY == display_type`, `element_type_model and STRUCT == ...`, `not struct.is_aligned and element.is_aligned`, `= True`
	.anchor(UTIL, '_process_struct', {
		2: ('ps_default_abstract', 'bool'), 3: ('ps_typed_cmp', 'op'), 5: ('ps_elem_conn', 'conn'), 6: ('ps_elem_struct_cmp', 'op'),
		7: ('ps_mark_conn', 'conn'), 9: ('ps_mark_value', 'bool')})
	.anchor(UTIL, 'MarkedStructs.__init__', {})
	.anchor(UTIL, 'MarkedStructs.start', {})
	.anchor(UTIL, 'MarkedStructs.add', {0: ('ms_tracked_test', 'memb'), 2: ('ms_add_test', 'memb')})
	.anchor(UTIL, 'MarkedStructs.finalize', {})
	.anchor(UTIL, 'MarkedStructs.__len__', {})
	# `factory_type and factory_type.requires_unaligned`, `type_model and STRUCT == ...`, loop exit `previous_length == len(..)`
	.anchor(UTIL, '_propagate_unaligned', {
		2: ('pu_factory_conn', 'conn'), 3: ('pu_desc_mark_value', 'bool'), 7: ('pu_member_conn', 'conn'),
		8: ('pu_member_struct_cmp', 'op'), 9: ('pu_member_mark_value', 'bool'), 10: ('pu_exit_cmp', 'op')})
	.anchor(UTIL, 'extend_models', {0: ('em_struct_cmp', 'op')})
)

MODULES = [DERIVE]
