"""Gen module for C08 (addresses): constants/operators of Network.py, symbol/Network.py, nem/Network.py, ByteArray.py."""
import ast

from ..gen import GenModule, const_eval

NET = 'sdk/python/symbolchain/Network.py'
SYM = 'sdk/python/symbolchain/symbol/Network.py'
NEM = 'sdk/python/symbolchain/nem/Network.py'
BYTEARRAY = 'sdk/python/symbolchain/ByteArray.py'
RIPEMD = 'sdk/python/symbolchain/ripemd160.py'

# identifiers of the shipped networks: `Network.MAINNET = Network('mainnet', 0x68, ...)` is an attribute assignment, which
# GenModule.constexpr cannot address; it is read here (fail closed: anything but an integer constant expression in the second
# positional argument of a direct `Network(...)` call falls back to the value below and reports the anchor unrecognised).
SHIPPED = (
	(SYM, 'MAINNET', 'sym_mainnet_id', 0x68), (SYM, 'TESTNET', 'sym_testnet_id', 0x98),
	(NEM, 'MAINNET', 'nem_mainnet_id', 0x68), (NEM, 'TESTNET', 'nem_testnet_id', 0x98))


def shipped_identifier(tree, attr):
	found = []
	for node in tree.body if tree is not None else []:
		if not isinstance(node, ast.Assign) or len(node.targets) != 1:
			continue
		target = node.targets[0]
		if isinstance(target, ast.Attribute) and isinstance(target.value, ast.Name) and target.value.id == 'Network' and target.attr == attr:
			found.append(node.value)
	if len(found) != 1:
		return None
	call = found[0]
	if not (isinstance(call, ast.Call) and isinstance(call.func, ast.Name) and call.func.id == 'Network' and len(call.args) >= 2):
		return None
	if any(keyword.arg in (None, 'identifier') for keyword in call.keywords):
		return None
	try:
		return const_eval(call.args[1])
	except (ValueError, TypeError, OverflowError):
		return None


class AddressGen(GenModule):
	def generate(self, shapes):
		text, unrecognised = super().generate(shapes)
		lines = []
		for relpath, attr, coqname, pinned in SHIPPED:
			key = f'{relpath}::Network.{attr}.identifier'
			value = shipped_identifier(shapes.tree(relpath), attr)
			if value is None:
				shapes.report[key] = 'not-a-direct-Network-call-with-constant-identifier'
				unrecognised.append(key)
				value = pinned
			else:
				shapes.report[key] = 'recognised'
			lines.append(f'(* {key}: {shapes.report[key]} *)')
			lines.append(f'Definition {coqname} : Z := ({value})%Z.')
		return text + '\n'.join(lines) + '\n', unrecognised


ADDRESS = (
	AddressGen('AddressOps')
	.constexpr(SYM, 'Address.SIZE', 'sym_address_size')
	.constexpr(SYM, 'Address.ENCODED_SIZE', 'sym_encoded_size')
	.constexpr(NEM, 'Address.SIZE', 'nem_address_size')
	.constexpr(NEM, 'Address.ENCODED_SIZE', 'nem_encoded_size')
	.anchor(NET, 'BASE32_RFC4648_ALPHABET', {0: ('addr_alphabet', 'bytes')})
	# checksum = digest[0:4]
	.anchor(NET, 'Network.public_key_to_address', {1: ('pk_ck_lo', 'nat'), 2: ('pk_ck_hi', 'nat')})
	# ENCODED_SIZE != len(s) -> False ; any(ch not in ALPHABET) -> False
	.anchor(NET, 'Network.is_valid_address_string', {0: ('vs_len_op', 'op'), 1: ('vs_len_ret', 'bool'), 3: ('vs_alpha_ret', 'bool')})
	# bytes[0] != identifier -> False ; bytes[0:1 + 20] ; bytes[1 + 20:] ; digest[0:len(..)] ; ==
	.anchor(NET, 'Network.is_valid_address', {
		0: ('va_id_idx', 'nat'), 1: ('va_id_op', 'op'), 2: ('va_id_ret', 'bool'), 3: ('va_body_lo', 'nat'),
		4: ('va_body_a', 'Z'), 5: ('va_body_op', 'op'), 6: ('va_body_b', 'Z'),
		7: ('va_ck_a', 'Z'), 8: ('va_ck_op', 'op'), 9: ('va_ck_b', 'Z'), 10: ('va_calc_lo', 'nat'), 11: ('va_eq_op', 'op')})
	# b32decode(address + 'A')[0:-1]
	.anchor(SYM, 'Address.__init__', {1: ('sym_dec_pad', 'char'), 2: ('sym_dec_lo', 'nat'), 4: ('sym_dec_drop', 'nat')})
	# b32encode(self.bytes + bytes(0)).decode('utf8')[0:-1]
	.anchor(SYM, 'Address.__str__', {1: ('sym_str_zeros', 'nat'), 3: ('sym_str_lo', 'nat'), 5: ('sym_str_drop', 'nat')})
	# Address(address_without_checksum + checksum[0:3])
	.anchor(SYM, 'Network.create_address', {1: ('sym_ck_lo', 'nat'), 2: ('sym_ck_hi', 'nat')})
	# no holes: the skeleton pins the names (hashlib.sha3_256 / sha3.keccak_256 / base64.b32decode / b32encode / ripemd160 / hashlib.new)
	.anchor(SYM, 'Network.address_hasher', {})
	.anchor(NEM, 'Network.address_hasher', {})
	.anchor(NEM, 'Address.__init__', {})
	.anchor(NEM, 'Address.__str__', {})
	.anchor(NEM, 'Network.create_address', {})
	.anchor(RIPEMD, 'ripemd160', {})
	.anchor(RIPEMD, '_factory', {})
	# fixed_size != len(raw_bytes) -> ValueError
	.anchor(BYTEARRAY, 'ByteArray.__init__', {1: ('ba_size_op', 'op')})
)

MODULES = [ADDRESS]
