"""Gen modules for C20 (C++ linter: include order, include proposal, preprocessor indent fixer).

IncludeOrderOps    constants / operators of the anchor functions (harness/gen.py atoms, pinned in harness/shapes/IncludeOrderOps.json)
IncludeOrderTables tables that are list / dict / tuple literals (priority dicts, prefix lists, SPECIAL_INCLUDES patterns); read with
                   ast.literal_eval by the `extra` hook below so that adding or changing an ENTRY is not a shape change."""
import ast
import copy
import hashlib

from ..common import GEN, find_def, shape_of, write_if_changed
from ..gen import GenModule

CPS = 'linters/cpp/checkProjectStructure.py'
HP = 'linters/cpp/HeaderParser.py'
EXC = 'linters/cpp/exclusions.py'

OPS = (
	GenModule('IncludeOrderOps')
	# --- SortableInclude.__lt__ and helpers
	.anchor(CPS, 'is_external_include', {1: ('ext_prefix_1', 'bytes'), 2: ('ext_prefix_2', 'bytes')})
	.anchor(CPS, 'check_external_include', {2: ('ext_ret_first', 'bool'), 5: ('ext_ret_second', 'bool')})
	.anchor(CPS, 'check_cpp_include', {2: ('cpp_ret_first', 'bool'), 5: ('cpp_ret_second', 'bool')})
	.anchor(CPS, 'check_local_include', {
		3: ('local_default_a', 'Z'), 5: ('local_default_b', 'Z'),
		8: ('local_symbol_a', 'bytes'), 9: ('local_len_op_a', 'op'), 10: ('local_len_bound_a', 'Z'), 13: ('local_add2_op_a', 'op'),
		16: ('local_symbol_b', 'bytes'), 17: ('local_len_op_b', 'op'), 18: ('local_len_bound_b', 'Z'), 21: ('local_add2_op_b', 'op'),
		22: ('local_tests_a', 'bytes'), 24: ('local_tests_op_a', 'op'), 25: ('local_tests_bonus_a', 'Z'),
		26: ('local_tests_b', 'bytes'), 28: ('local_tests_op_b', 'op'), 29: ('local_tests_bonus_b', 'Z'),
		30: ('local_same_op', 'op'), 32: ('local_lt_op', 'op')})
	.anchor(CPS, 'check_include_depth', {
		1: ('depth_op_1a', 'op'), 2: ('depth_c_1a', 'Z'), 3: ('depth_op_1b', 'op'), 4: ('depth_c_1b', 'Z'), 5: ('depth_ret_1', 'bool'),
		7: ('depth_op_2a', 'op'), 8: ('depth_c_2a', 'Z'), 9: ('depth_op_2b', 'op'), 10: ('depth_c_2b', 'Z'), 11: ('depth_ret_2', 'bool'),
		13: ('depth_op_3a', 'op'), 14: ('depth_c_3a', 'Z'), 15: ('depth_op_3b', 'op'), 16: ('depth_c_3b', 'Z'), 17: ('depth_ret_3', 'bool'),
		19: ('depth_op_4a', 'op'), 20: ('depth_c_4a', 'Z'), 21: ('depth_op_4b', 'op'), 22: ('depth_c_4b', 'Z'), 23: ('depth_ret_4', 'bool')})
	.anchor(CPS, 'SortableInclude.compare_paths', {
		4: ('path_sep_a', 'char'), 5: ('path_sep_b', 'char'), 8: ('chr_local', 'char'), 13: ('path_lt_op', 'op')})
	.anchor(CPS, 'SortableInclude.__eq__', {0: ('inc_eq_op', 'op')})
	.anchor(CPS, 'SortableInclude.__lt__', {
		1: ('lt_first_op_1', 'op'), 3: ('lt_ret_1', 'bool'), 5: ('lt_first_op_2', 'op'), 7: ('lt_ret_2', 'bool'),
		10: ('chr_system', 'char'), 12: ('suffix_h_a', 'bytes'), 15: ('suffix_h_b', 'bytes'), 19: ('lt_ret_3', 'bool'), 24: ('lt_ret_4', 'bool')})
	# --- Entry: own path, fix_relative, check_includes
	.anchor(CPS, 'is_special_include', {})
	.anchor(CPS, 'Entry.__init__', {7: ('own_src_dir', 'bytes')})
	.anchor(CPS, 'Entry.fix_relative', {1: ('rel_sep', 'char')})
	.anchor(CPS, 'Entry.check_includes', {
		2: ('suffix_cpp', 'bytes'), 4: ('dir_tests', 'bytes'), 6: ('own_ne_op', 'op'), 8: ('own_eq_op', 'op'), 10: ('first_ne_op', 'op'),
		14: ('order_ne_op', 'op')})
	# --- HeaderParser: the fixes list, fix_indents, report_indents
	.anchor(HP, 'HeaderParser.PATTERN_INCLUDE', {})
	.anchor(HP, 'HeaderParser.PATTERN_PREPROCESSOR', {})
	.anchor(HP, 'HeaderParser.parse_include', {})
	.anchor(HP, 'Include.__str__', {})
	.anchor(HP, 'Preproc.__init__', {
		0: ('pp_word_0', 'bytes'), 1: ('pp_word_1', 'bytes'), 2: ('pp_word_2', 'bytes'), 3: ('pp_word_3', 'bytes'), 4: ('pp_word_4', 'bytes'),
		5: ('pp_word_5', 'bytes'), 6: ('pp_word_6', 'bytes'), 7: ('pp_word_7', 'bytes'), 8: ('pp_word_8', 'bytes'), 9: ('pp_word_9', 'bytes'),
		10: ('pp_word_10', 'bytes')})
	.anchor(HP, 'HeaderParser.parse_file', {0: ('pf_first_lineno', 'Z'), 16: ('pf_lineno_inc', 'Z')})
	.anchor(HP, 'HeaderParser.process_continuation', {1: ('cont_chr', 'char'), 2: ('cont_op', 'op'), 4: ('cont_back', 'Z')})
	.anchor(HP, 'HeaderParser.process_preprocessor', {
		1: ('pp_cont_chr', 'char'), 2: ('pp_cont_op', 'op'), 4: ('pp_cont_back', 'Z'), 6: ('pp_pragma_op', 'op'), 7: ('pp_pragma_once', 'bytes')})
	.anchor(HP, 'fix_tabs', {0: ('ft_zero_op', 'op'), 1: ('ft_zero', 'Z'), 2: ('ft_neg_op', 'op'), 3: ('ft_neg_bound', 'Z'), 7: ('ft_tab', 'char')})
	.anchor(HP, 'HeaderParser.fix_indents', {
		1: ('fi_first_lineno', 'Z'), 2: ('fi_fc_init', 'bool'), 6: ('fi_lineno_op', 'op'), 9: ('fi_fc_after_pp', 'bool'),
		14: ('fi_fc_after_cont', 'bool'), 15: ('fi_target_tabs', 'Z'), 16: ('fi_delta_op', 'op'), 22: ('fi_lineno_inc', 'Z')})
	.anchor(HP, 'HeaderParser.report_indents', {
		0: ('ri_fc_init', 'bool'), 6: ('ri_fc_after_pp', 'bool'), 10: ('ri_target_tabs', 'Z'), 11: ('ri_tabs_op', 'op'), 15: ('ri_fc_after_cont', 'bool')})
	.anchor(HP, 'HeaderParser.__init__', {})
)

# ---------------------------------------------------------------------------------------------------------------------
# tables (literal_eval); the values below are used only when the source is no longer a literal of the expected type
# (reported as a shape failure; the check treats that as a broken tie)

PINNED_TABLES = {
	'priorities_1lvl': {'"src': 100, '"mongo': 125, '"zeromq': 125, '"plugins': 150, '"catapult': 200, '"symbol': 200, '"tests': 500, '"test': 500},
	'priorities_2lvl': {'extended': -100, 'txes': -50},
	'cpp_prefixes': ['<boost', '<mongocxx', '<bsoncxx', '<rocksdb', '<benchmark'],
	'special_patterns': [
		'"catapult/utils/MacroBasedEnum\\.h"', '"ReentrancyCheckReaderNotificationPolicy.h"', '<ref10/crypto_verify_32.h>', '<dlfcn.h>', '<io.h>',
		'<mach/mach.h>', '<psapi.h>', '<stdexcept>', '<sys/file.h>', '<sys/resource.h>', '<sys/time.h>', '<unistd.h>', '<windows.h>']
}
IS_CPP_INCLUDE_SKELETON = '3ab8be9eca0c8772'   # is_cpp_include with the list literal emptied (set by _skeleton_without_list)

REGEX_SPECIAL = set('.^$*+?{}[]\\|()')


def cps(text):
	return '[' + '; '.join(str(ord(c)) for c in text) + ']%Z'


def translate_pattern(pattern):
	"""Regex subset of SPECIAL_INCLUDES: literal characters, `.` (any character but newline, rendered -1) and `\\.`."""
	out = []
	i = 0
	while i < len(pattern):
		ch = pattern[i]
		if ch == '\\':
			if i + 1 < len(pattern) and pattern[i + 1] in REGEX_SPECIAL:
				out.append(ord(pattern[i + 1]))
				i += 2
				continue
			raise ValueError(pattern)
		if ch == '.':
			out.append(-1)
		elif ch in REGEX_SPECIAL:
			raise ValueError(pattern)
		else:
			out.append(ord(ch))
		i += 1
	return out


def _skeleton_without_list(node):
	clone = copy.deepcopy(node)
	lists = [n for n in ast.walk(clone) if isinstance(n, ast.List)]
	if len(lists) != 1:
		return None, None
	try:
		value = ast.literal_eval(lists[0])
	except (ValueError, SyntaxError):
		return None, None
	lists[0].elts = []
	skeleton, _ = shape_of(clone)
	return hashlib.sha256(skeleton.encode('utf8')).hexdigest()[:16], value


def read_tables(shapes):
	"""Returns ({name: value}, {key: status})."""
	tables = {}
	report = {}

	def dict_of(relpath, name, table):
		key = f'{relpath}::{name}'
		tree = shapes.tree(relpath)
		node = find_def(tree, name) if tree is not None else None
		value = None
		if isinstance(node, ast.Assign) and isinstance(node.value, ast.Dict):
			try:
				value = ast.literal_eval(node.value)
			except (ValueError, SyntaxError):
				value = None
			if value is not None and len(value) != len(node.value.keys):
				value = None   # duplicate keys: the literal is not the table it looks like
		if value is not None and all(
			isinstance(k, str) and '\n' not in k and isinstance(v, int) and not isinstance(v, bool) for k, v in value.items()):
			tables[table] = value
			report[key] = 'recognised'
		else:
			tables[table] = PINNED_TABLES[table]
			report[key] = 'missing' if node is None else 'not-a-str-int-dict-literal'

	dict_of(CPS, 'INCLUDE_PRIORITIES_1LVL', 'priorities_1lvl')
	dict_of(CPS, 'INCLUDE_PRIORITIES_2LVL', 'priorities_2lvl')

	key = f'{CPS}::is_cpp_include'
	tree = shapes.tree(CPS)
	node = find_def(tree, 'is_cpp_include') if tree is not None else None
	digest, value = _skeleton_without_list(node) if isinstance(node, ast.FunctionDef) else (None, None)
	if digest == IS_CPP_INCLUDE_SKELETON and isinstance(value, list) and all(isinstance(v, str) for v in value):
		tables['cpp_prefixes'] = value
		report[key] = 'recognised'
	else:
		tables['cpp_prefixes'] = PINNED_TABLES['cpp_prefixes']
		report[key] = 'missing' if node is None else f'shape-changed:{digest}'

	key = f'{EXC}::SPECIAL_INCLUDES'
	tree = shapes.tree(EXC)
	node = find_def(tree, 'SPECIAL_INCLUDES') if tree is not None else None
	patterns = None
	if isinstance(node, ast.Assign) and isinstance(node.value, (ast.Tuple, ast.List)):
		patterns = []
		for elt in node.value.elts:
			if isinstance(elt, ast.Call) and isinstance(elt.func, ast.Attribute) and elt.func.attr == 'compile' \
				and isinstance(elt.func.value, ast.Name) and elt.func.value.id == 're' and len(elt.args) == 1 and not elt.keywords \
				and isinstance(elt.args[0], ast.Constant) and isinstance(elt.args[0].value, str):
				patterns.append(elt.args[0].value)
			else:
				patterns = None
				break
	try:
		translated = [translate_pattern(p) for p in patterns] if patterns is not None else None
	except ValueError:
		translated = None
	if translated is not None:
		tables['special_patterns'] = translated
		report[key] = 'recognised'
	else:
		tables['special_patterns'] = [translate_pattern(p) for p in PINNED_TABLES['special_patterns']]
		report[key] = 'missing' if node is None else 'not-a-tuple-of-simple-patterns'
	return tables, report


def render_tables(tables, report):
	lines = [
		'(* REGENERATED from the table literals of linters/cpp in /repo by harness/gens/c20.py -- do not edit *)',
		'From Symv Require Import Base.Bytes.', '']
	for key, status in sorted(report.items()):
		lines.append(f'(* {key}: {status} *)')

	def pairs(table):
		return '[' + ';\n   '.join(f'({cps(k)}, ({v})%Z)' for k, v in table.items()) + ']'

	lines.append(f'Definition priorities_1lvl : list (list Z * Z) :=\n  {pairs(tables["priorities_1lvl"])}.')
	lines.append(f'Definition priorities_2lvl : list (list Z * Z) :=\n  {pairs(tables["priorities_2lvl"])}.')
	lines.append('Definition cpp_prefixes : list (list Z) :=\n  [' + ';\n   '.join(cps(p) for p in tables['cpp_prefixes']) + '].')
	lines.append('(* one list per pattern; a code point stands for itself, -1 for the regex `.` *)')
	lines.append('Definition special_patterns : list (list Z) :=\n  [' + ';\n   '.join(
		'[' + '; '.join(f'({c})' if c < 0 else str(c) for c in p) + ']%Z' for p in tables['special_patterns']) + '].')
	return '\n'.join(lines) + '\n'


def tables_extra(shapes):
	tables, report = read_tables(shapes)
	shapes.report.update(report)
	write_if_changed(GEN / 'IncludeOrderTables.v', render_tables(tables, report))


OPS.extra = tables_extra

MODULES = [OPS]
