"""Gen module for C06 (AstValidator in both modes, the CLI's exit status on validation errors).

ValidateOps: the places of AstValidator.py a property-breaking edit would touch are holes -- the mode guard, every membership test
(`in` / `not in` against field_map / type_descriptor_map / literal tuples), the comparison operators, the literal strings the
validator branches on ('inline', 'sizeof', 'abstract', 'ripemd_keccak_256', 'size', 'discriminator'), the attribute names read
by the ast.Struct properties, the Mode constants and the exit status of __main__._validate.  Message texts, `not`/`and`/`or`
and every other atom must equal the pinned ones (otherwise the anchor is reported unrecognised).  The pinned skeletons are those
of the repaired validator (seeded/_fixes/C06-fix.diff); on a tree without the repair the three repaired methods are reported
`shape-changed`, the pinned hole values (= intended behaviour) are used and the correspondence / property oracle decide.

Two more constants are not atoms of one function: the attribute names `hasattr(field.field_type, name)` can find on a
FixedSizeInteger and on an Array (methods, properties and `self.x = ...` of __init__), read off the class bodies of ast.py."""
import ast

from .. import gen
from ..gen import GenModule

AV = 'catbuffer/parser/catparser/AstValidator.py'
ASTPY = 'catbuffer/parser/catparser/ast.py'
MAIN = 'catbuffer/parser/catparser/__main__.py'

PINNED_ATTR_NAMES = {
	'FixedSizeInteger': ['SizeRef', '_sizeref', 'copy', 'display_type', 'is_unsigned', 'name', 'short_name', 'size', 'sizeref', 'to_legacy_descriptor'],
	'Array': [
		'_attributes', '_raw_size', 'alignment', 'copy', 'display_type', 'disposition', 'element_type', 'is_byte_constrained', 'is_expandable',
		'is_last_element_padded', 'size', 'sort_key', 'to_legacy_descriptor']
}


def _render(kind, value, fallback):
	if kind == 'membership':
		if value not in ('In', 'NotIn'):
			raise ValueError(value)
		return ('true' if value == 'In' else 'false'), 'bool'
	if kind == 'eqop':
		if value not in ('Eq', 'Ne'):
			raise ValueError(value)
		return value, 'pyop'
	return fallback(kind, value)


def class_attr_names(tree, classname):
	"""Names hasattr() finds on an instance: class-level defs/assignments and `self.x = ...` in __init__ (dunder names left out)."""
	if tree is None:
		return None
	for node in tree.body:
		if isinstance(node, ast.ClassDef) and node.name == classname:
			names = set()
			for child in node.body:
				if isinstance(child, (ast.FunctionDef, ast.ClassDef)):
					names.add(child.name)
					if isinstance(child, ast.FunctionDef) and child.name == '__init__':
						for sub in ast.walk(child):
							if isinstance(sub, ast.Attribute) and isinstance(sub.ctx, ast.Store) and isinstance(sub.value, ast.Name) and sub.value.id == 'self':
								names.add(sub.attr)
				elif isinstance(child, ast.Assign):
					names.update(t.id for t in child.targets if isinstance(t, ast.Name))
			return sorted(n for n in names if not (n.startswith('__') and n.endswith('__')))
	return None


class ValidateModule(GenModule):
	def generate(self, shapes):
		fallback = gen.render
		gen.render = lambda kind, value: _render(kind, value, fallback)
		try:
			text, unrecognised = super().generate(shapes)
		finally:
			gen.render = fallback
		tree = shapes.tree(ASTPY)
		for classname, coqname in (('FixedSizeInteger', 'vo_int_attr_names'), ('Array', 'vo_array_attr_names')):
			key = f'{ASTPY}::{classname}(attribute names)'
			names = class_attr_names(tree, classname)
			if names is None or any('"' in n for n in names):
				shapes.report[key] = 'missing'
				unrecognised.append(key)
				names = PINNED_ATTR_NAMES[classname]
			else:
				shapes.report[key] = 'recognised' if names == PINNED_ATTR_NAMES[classname] else 'recognised(changed)'
			text += f'(* {key}: {shapes.report[key]} *)\n'
			text += f'Definition {coqname} : list string := [' + '; '.join(f'"{n}"%string' for n in names) + '].\n'
		return text, unrecognised


VALIDATE = (
	ValidateModule('ValidateOps')
	.anchor(AV, 'ErrorDescriptor.__init__', {})
	.anchor(AV, 'AstValidator.Mode', {0: ('vo_mode_pre', 'Z'), 1: ('vo_mode_post', 'Z')})
	.anchor(AV, 'AstValidator.__init__', {})
	.anchor(AV, 'AstValidator.validate', {})
	.anchor(AV, 'AstValidator._validate_enum', {})
	# if self.Mode.PRE_EXPANSION != self.mode: self._check_struct_attributes(...)
	.anchor(AV, 'AstValidator._validate_struct', {2: ('vo_mode_guard', 'eqop')})
	.anchor(AV, 'AstValidator._validate_unnamed_inline', {})
	# 'inline' == field.disposition and (not referenced_struct or 'inline' != referenced_struct.disposition); 'sizeof' == field.disposition
	.anchor(AV, 'AstValidator._validate_struct_field', {
		4: ('vo_inline_lit_a', 'string'), 5: ('vo_inline_eq', 'eqop'), 8: ('vo_inline_lit_b', 'string'), 9: ('vo_inline_ne', 'eqop'),
		14: ('vo_sizeof_lit', 'string'), 15: ('vo_sizeof_eq', 'eqop')})
	.anchor(AV, 'AstValidator._validate_integer', {1: ('vo_sizeref_mem', 'membership')})
	.anchor(AV, 'AstValidator._validate_array', {12: ('vo_sortkey_eq', 'eqop'), 17: ('vo_size_mem', 'membership')})
	.anchor(AV, 'AstValidator._validate_sizeof', {0: ('vo_sizeof_mem', 'membership')})
	.anchor(AV, 'AstValidator._validate_conditional', {0: ('vo_cond_mem', 'membership')})
	.anchor(AV, 'AstValidator._validate_in_range', {1: ('vo_enum_eq', 'eqop')})
	.anchor(AV, 'AstValidator._check_struct_attributes', {
		0: ('vo_size_attr', 'string'), 4: ('vo_discriminator_attr', 'string'), 5: ('vo_discriminator_multi', 'bool')})
	.anchor(AV, 'AstValidator._check_comparer', {
		1: ('vo_comparer_mem', 'membership'), 4: ('vo_transform_mem', 'membership'), 6: ('vo_transform_lit', 'string')})
	.anchor(AV, 'AstValidator._check_initializers', {
		2: ('vo_concrete_mem', 'membership'), 3: ('vo_abstract_lit', 'string'), 4: ('vo_inline_lit_c', 'string'),
		5: ('vo_init_target_raises', 'bool'), 6: ('vo_init_mem', 'membership'), 11: ('vo_init_type_ne', 'eqop')})
	.anchor(AV, 'AstValidator._check_known_field', {5: ('vo_known_field_mem', 'membership')})
	.anchor(AV, 'AstValidator._is_known_type', {2: ('vo_known_type_mem', 'membership')})
	.anchor(AV, 'AstValidator._find_struct', {})
	.anchor(AV, 'AstValidator._find_duplicate_names', {1: ('vo_dup_mem', 'membership')})
	# the ast.Struct properties the validator reads
	.anchor(ASTPY, '_lookup_attribute_value', {})
	.anchor(ASTPY, 'Attribute.__init__', {})
	.anchor(ASTPY, 'Struct.is_size_implicit', {0: ('vo_attr_is_size_implicit', 'string')})
	.anchor(ASTPY, 'Struct.size', {0: ('vo_attr_size', 'string')})
	.anchor(ASTPY, 'Struct.discriminator', {0: ('vo_attr_discriminator', 'string')})
	.anchor(ASTPY, 'Struct.comparer', {0: ('vo_attr_comparer', 'string')})
	.anchor(ASTPY, 'Struct.initializers', {3: ('vo_attr_initializes', 'string')})
	# sys.exit(2)
	.anchor(MAIN, '_validate', {3: ('vo_exit_status', 'Z')})
)

MODULES = [VALIDATE]
