"""Gen module for C19 (C++ linter line rules): constants/operators of the modelled validators (pinned anchors with holes) and
the REGENERATED pattern tables: every `re.compile(<literal>)` found (by ast) in the modelled validator classes of
linters/cpp/validation.py (+ HeaderParser.PATTERN_EMPTY_LINE) is translated, fail-closed, from Python's own parse tree
(re._parser) into the Regex.v AST.  A pattern outside the supported subset is listed as not translatable and is excluded from
the tables (hence from the theorems); it is named in the evidence."""
import ast
import re

from ..common import GEN, REPO, write_if_changed
from ..gen import GenModule

try:
	_PARSER = re._parser  # pylint: disable=protected-access
	_CONST = re._constants  # pylint: disable=protected-access
except AttributeError:  # python < 3.11
	import sre_constants as _CONST  # pylint: disable=deprecated-module
	import sre_parse as _PARSER  # pylint: disable=deprecated-module

VALIDATION = 'linters/cpp/validation.py'
HEADERPARSER = 'linters/cpp/HeaderParser.py'
CHECKPS = 'linters/cpp/checkProjectStructure.py'
DEPSCHECKER = 'linters/cpp/DepsChecker.py'
DEPSCONFIG = 'linters/cpp/deps.config'

CLASSES = ('KNone', 'KWordC', 'KOther')
CLASS_REP = {'KNone': '', 'KWordC': 'a', 'KOther': ' '}


class Untranslatable(Exception):
	pass


# ---------------------------------------------------------------------------------------------------------------------
# regex translation (Python parse tree -> Gallina term of type regex)

_CATEGORIES = {
	'CATEGORY_SPACE': (False, 'KSpace'), 'CATEGORY_NOT_SPACE': (True, 'KSpace'),
	'CATEGORY_WORD': (False, 'KWord'), 'CATEGORY_NOT_WORD': (True, 'KWord'),
	'CATEGORY_DIGIT': (False, 'KDigit'), 'CATEGORY_NOT_DIGIT': (True, 'KDigit')
}
_ANCHORS = {'AT_BEGINNING': 'ABol', 'AT_END': 'AEol', 'AT_BOUNDARY': 'AWordB'}


def _items(entries):
	negated = False
	items = []
	for op, arg in entries:
		name = str(op)
		if name == 'NEGATE':
			negated = True
		elif name == 'LITERAL':
			items.append(f'CRange {arg} {arg}')
		elif name == 'RANGE':
			items.append(f'CRange {arg[0]} {arg[1]}')
		elif name == 'CATEGORY':
			if str(arg) not in _CATEGORIES:
				raise Untranslatable(f'category {arg}')
			neg, kind = _CATEGORIES[str(arg)]
			items.append(f'CCat {"true" if neg else "false"} {kind}')
		else:
			raise Untranslatable(f'class item {name}')
	return negated, items


def _seq(parsed):
	parts = []
	literal = []

	def flush():
		if literal:
			parts.append('Ch ' + str(literal[0]) if len(literal) == 1 else 'Lit [' + '; '.join(map(str, literal)) + ']')
			literal.clear()

	for op, arg in parsed:
		name = str(op)
		if name == 'LITERAL':
			literal.append(arg)
			continue
		flush()
		parts.append(_node(name, arg))
	flush()
	if not parts:
		return 'Eps'
	text = parts[-1]
	for part in reversed(parts[:-1]):
		text = f'Cat ({part}) ({text})'
	return text


def _node(name, arg):  # pylint: disable=too-many-return-statements,too-many-branches
	if name == 'NOT_LITERAL':
		return f'Chr true [CRange {arg} {arg}]'
	if name == 'ANY':
		return 'Any'
	if name == 'IN':
		negated, items = _items(arg)
		return f'Chr {"true" if negated else "false"} [{"; ".join(items)}]'
	if name == 'BRANCH':
		alts = [_seq(alt) for alt in arg[1]]
		text = alts[-1]
		for alt in reversed(alts[:-1]):
			text = f'Alt ({alt}) ({text})'
		return text
	if name == 'SUBPATTERN':
		_group, add_flags, del_flags, sub = arg
		if add_flags or del_flags:
			raise Untranslatable('scoped flags')
		return _seq(sub)
	if name in ('MAX_REPEAT', 'MIN_REPEAT'):
		# a lazy quantifier changes which match is preferred, not whether one exists: same language
		low, high, sub = arg
		inner = _seq(sub)
		if high == _CONST.MAXREPEAT:
			if low == 0:
				return f'Star ({inner})'
			if low == 1:
				return f'Plus ({inner})'
			if low <= 8:
				return f'Cat (Rep {low} ({inner})) (Star ({inner}))'
			raise Untranslatable(f'repeat {low},')
		if (low, high) == (0, 1):
			return f'Opt ({inner})'
		if high <= 8:
			return f'RepRange {low} {high - low} ({inner})'
		raise Untranslatable(f'repeat {low},{high}')
	if name == 'AT':
		if str(arg) not in _ANCHORS:
			raise Untranslatable(f'assertion {arg}')
		return f'Anc {_ANCHORS[str(arg)]}'
	raise Untranslatable(name.lower())


def translate(pattern):
	"""Returns the Gallina text of the pattern; raises Untranslatable."""
	try:
		parsed = _PARSER.parse(pattern)
	except re.error as ex:
		raise Untranslatable(f're.error {ex}') from ex
	if parsed.state.flags & ~_CONST.SRE_FLAG_UNICODE:
		raise Untranslatable('inline flags')
	return _seq(parsed)


# ---------------------------------------------------------------------------------------------------------------------
# witness words: candidates from the parse tree, validated with Python's re here and by the Coq kernel in Props/C19.v

def _class_witness(entries):
	negated = any(str(op) == 'NEGATE' for op, _ in entries)
	probe = re.compile('[' + ('^' if negated else '') + ''.join(_class_source(op, arg) for op, arg in entries if str(op) != 'NEGATE') + ']')
	preferred = []
	for op, arg in entries:
		name = str(op)
		if name == 'LITERAL':
			preferred.append(chr(arg))
		elif name == 'RANGE':
			preferred.append(chr(arg[0]))
	for char in ([] if negated else preferred) + list('xA1 _#;.') + [chr(c) for c in range(33, 127)] + ['\t']:
		if probe.fullmatch(char):
			return char
	raise Untranslatable('no printable member of class')


def _class_source(op, arg):
	name = str(op)
	if name == 'LITERAL':
		return re.escape(chr(arg))
	if name == 'RANGE':
		return re.escape(chr(arg[0])) + '-' + re.escape(chr(arg[1]))
	return {
		'CATEGORY_SPACE': r'\s', 'CATEGORY_NOT_SPACE': r'\S', 'CATEGORY_WORD': r'\w', 'CATEGORY_NOT_WORD': r'\W',
		'CATEGORY_DIGIT': r'\d', 'CATEGORY_NOT_DIGIT': r'\D'}[str(arg)]


def _witnesses(parsed, limit=24):
	"""Candidate words matched by the sequence (a few per alternative)."""
	results = ['']
	for op, arg in parsed:
		name = str(op)
		if name == 'LITERAL':
			options = [chr(arg)]
		elif name == 'NOT_LITERAL':
			options = ['x' if arg != ord('x') else 'y']
		elif name == 'ANY':
			options = ['x']
		elif name == 'IN':
			options = [_class_witness(arg)]
		elif name == 'BRANCH':
			options = []
			for alt in arg[1]:
				options += _witnesses(alt, 4)
		elif name == 'SUBPATTERN':
			options = _witnesses(arg[3], 8)
		elif name in ('MAX_REPEAT', 'MIN_REPEAT'):
			low, _high, sub = arg
			inner = _witnesses(sub, 3)
			options = [word * low for word in inner] if low else ['']
		elif name == 'AT':
			options = ['']
		else:
			raise Untranslatable(name.lower())
		results = [head + tail for head in results for tail in options][:limit]
	return results


def admissible_contexts(pattern, word):
	"""(left class, right class) pairs such that the compiled pattern matches exactly `word` between neighbours of these classes."""
	found = []
	for left in CLASSES:
		for right in CLASSES:
			pre, post = CLASS_REP[left], CLASS_REP[right]
			probe = re.compile(f'(?:{pattern})(?={re.escape(post)}\\Z)')
			match = probe.match(pre + word + post, len(pre))
			if match and match.end() == len(pre) + len(word):
				found.append((left, right))
	return found


def choose_witness(pattern):
	parsed = _PARSER.parse(pattern)
	best = None
	candidates = [word for word in _witnesses(parsed) if word]
	for word in candidates + ['']:  # the empty word only as a last resort (e.g. for the blank-line pattern)
		if not word and best is not None:
			break
		contexts = admissible_contexts(pattern, word)
		if not contexts:
			continue
		key = (-len(contexts), len(word))
		if best is None or key < best[0]:
			best = (key, word, contexts)
	if best is None:
		raise Untranslatable('no witness word found')
	return best[1], best[2]


# ---------------------------------------------------------------------------------------------------------------------
# extraction of the pattern literals from the validator classes

def _is_re_compile(node):
	return isinstance(node, ast.Call) and isinstance(node.func, ast.Attribute) and node.func.attr == 'compile' \
		and isinstance(node.func.value, ast.Name) and node.func.value.id == 're'


def _pattern_of(call):
	"""Pattern string of a `re.compile(<str literal>)` call, or None (extra arguments = flags = not a plain literal)."""
	if len(call.args) == 1 and not call.keywords and isinstance(call.args[0], ast.Constant) and isinstance(call.args[0].value, str):
		return call.args[0].value
	return None


def _find_class(tree, name):
	for node in tree.body:
		if isinstance(node, ast.ClassDef) and node.name == name:
			return node
	return None


def _find_method(cls, name):
	for node in cls.body:
		if isinstance(node, ast.FunctionDef) and node.name == name:
			return node
	return None


def attribute_patterns(tree, class_name):
	"""{attribute: pattern or None} for `self.<attribute> = re.compile(...)` statements of <class>.__init__ (None: not a literal)."""
	cls = _find_class(tree, class_name)
	init = _find_method(cls, '__init__') if cls else None
	if init is None:
		return None
	found = {}
	for node in ast.walk(init):
		if isinstance(node, ast.Assign) and len(node.targets) == 1 and _is_re_compile(node.value):
			target = node.targets[0]
			if isinstance(target, ast.Attribute) and isinstance(target.value, ast.Name) and target.value.id == 'self':
				found[target.attr] = _pattern_of(node.value)
	return found


def typo_entries(tree):
	"""[(pattern or None, message)] of `self.errors = {re.compile(...): '...'}` in TypoChecker.__init__, in source order."""
	cls = _find_class(tree, 'TypoChecker')
	init = _find_method(cls, '__init__') if cls else None
	if init is None:
		return None
	for node in ast.walk(init):
		if isinstance(node, ast.Assign) and len(node.targets) == 1 and isinstance(node.targets[0], ast.Attribute) \
			and node.targets[0].attr == 'errors' and isinstance(node.value, ast.Dict):
			entries = []
			for key, value in zip(node.value.keys, node.value.values):
				if not (_is_re_compile(key) and isinstance(value, ast.Constant) and isinstance(value.value, str)):
					return None
				entries.append((_pattern_of(key), value.value))
			return entries
	return None


def class_attribute_pattern(tree, class_name, attribute):
	cls = _find_class(tree, class_name)
	if cls is None:
		return None
	for node in cls.body:
		if isinstance(node, ast.Assign) and len(node.targets) == 1 and isinstance(node.targets[0], ast.Name) \
			and node.targets[0].id == attribute and _is_re_compile(node.value):
			return _pattern_of(node.value)
	return None


WHITESPACE_ATTRIBUTES = (
	'pattern_whitespaces', 'pattern_spaces_start', 'pattern_tabs_start', 'pattern_spaces_middle', 'pattern_space_operator',
	'pattern_comment_single', 'pattern_tab_inside', 'pattern_carriage_return', 'pattern_comma')


def build_tables(repo=None):
	"""Reads the working tree; returns {'single': {coq name: entry}, 'typo': [entry], 'untranslatable': [...], 'missing': [...]}
	with entry = {'id', 'pattern', 'coq', 'witness', 'contexts'}."""
	repo = repo or REPO
	result = {'single': {}, 'typo': [], 'untranslatable': [], 'missing': []}
	try:
		validation = ast.parse((repo / VALIDATION).read_text(encoding='utf8'))
		header = ast.parse((repo / HEADERPARSER).read_text(encoding='utf8'))
	except (OSError, SyntaxError) as ex:
		result['missing'].append(f'source not readable: {ex}')
		return result

	def entry(ident, pattern, where):
		if pattern is None:
			result['missing'].append(f'{where}: not a plain re.compile(<literal>)')
			return None
		try:
			coq = translate(pattern)
			witness, contexts = choose_witness(pattern)
		except Untranslatable as ex:
			result['untranslatable'].append({'where': where, 'pattern': pattern, 'id': ident, 'reason': str(ex)})
			return None
		return {'id': ident, 'pattern': pattern, 'coq': coq, 'witness': witness, 'contexts': contexts}

	whitespace = attribute_patterns(validation, 'WhitespaceLineValidator')
	for attribute in WHITESPACE_ATTRIBUTES:
		name = 'ws_' + attribute[len('pattern_'):]
		if whitespace is None or attribute not in whitespace:
			result['missing'].append(f'WhitespaceLineValidator.{attribute}')
			continue
		result['single'][name] = entry(attribute, whitespace[attribute], f'WhitespaceLineValidator.{attribute}')
	if whitespace is not None:
		for attribute in sorted(set(whitespace) - set(WHITESPACE_ATTRIBUTES)):
			result['missing'].append(f'WhitespaceLineValidator.{attribute}: pattern unknown to the model')
	for class_name, name in (('TemplateSpaceValidator', 'template_pat'), ('CatchWithoutClosingTryBrace', 'catch_pat')):
		patterns = attribute_patterns(validation, class_name)
		if not patterns or set(patterns) != {'pattern_template'}:
			result['missing'].append(f'{class_name}.pattern_template')
			continue
		result['single'][name] = entry('pattern_template', patterns['pattern_template'], f'{class_name}.pattern_template')
	empty = class_attribute_pattern(header, 'HeaderParser', 'PATTERN_EMPTY_LINE')
	result['single']['empty_line_pat'] = entry('PATTERN_EMPTY_LINE', empty, 'HeaderParser.PATTERN_EMPTY_LINE')
	typos = typo_entries(validation)
	if typos is None:
		result['missing'].append('TypoChecker.errors')
	else:
		for index, (pattern, message) in enumerate(typos):
			item = entry(message, pattern, f'TypoChecker.errors[{index}]')
			if item is not None:
				item['index'] = index
				result['typo'].append(item)
	return result


def _coq_string(text):
	if not all(32 <= ord(c) < 127 for c in text):
		raise Untranslatable('non-ASCII identifier')
	return '"' + text.replace('"', '""') + '"%string'


def _coq_pat(item):
	if item is None:
		return 'mkpat ""%string Empty [] []'
	word = '[' + '; '.join(str(ord(c)) for c in item['witness']) + ']'
	contexts = '[' + '; '.join(f'({a}, {b})' for a, b in item['contexts']) + ']'
	return f'mkpat {_coq_string(item["id"])} ({item["coq"]}) {word} {contexts}'


def tables_text(tables):
	lines = ['', '(* ---- pattern tables regenerated from the re.compile literals (harness/gens/c19.py) ---- *)']
	for name in ['ws_' + a[len('pattern_'):] for a in WHITESPACE_ATTRIBUTES] + ['template_pat', 'catch_pat', 'empty_line_pat']:
		item = tables['single'].get(name)
		if item is not None:
			lines.append('(* ' + _comment_safe(item['pattern']) + ' *)')
		lines.append(f'Definition {name} : pat := {_coq_pat(item)}.')
	lines.append('Definition typo_table : list pat := [')
	rows = []
	for item in tables['typo']:
		rows.append(f'  (* {item["index"]} *) {_coq_pat(item)}')
	lines.append(';\n'.join(rows))
	lines.append('].')
	lines.append(f'Definition lint_untranslatable : nat := {len(tables["untranslatable"])}%nat.')
	lines.append(f'Definition lint_missing : nat := {len(tables["missing"])}%nat.')
	return '\n'.join(lines) + '\n'


def _comment_safe(text):
	# Coq lexes string literals and nested comments inside comments
	return text.replace('"', "''").replace('(*', '( *').replace('*)', '* )')


def parse_deps_text(text):
	"""Independent reader of a deps.config text following DepsChecker.parse: (rule lines, defines, unparseable lines)."""
	lines, defines, bad = [], [], []
	for raw in text.split('\n'):
		line = re.sub(r'#.*', '', raw.strip()).strip()
		if not line:
			continue
		rule = line.split('->')
		define = line.split(' = ')
		if len(rule) == 2:
			lines.append((rule[0].strip(), rule[1].strip()))
		if len(define) == 2:
			values = []
			for value in define[1].split(' '):
				if value.strip() and value.strip() not in values:
					values.append(value.strip())
			defines.append((define[0].strip(), values))
		if len(rule) != 2 and len(define) != 2:
			bad.append(line)
	return lines, defines, bad


def read_deps_config(repo=None):
	repo = repo or REPO
	try:
		text = (repo / DEPSCONFIG).read_text(encoding='utf8')
	except OSError as ex:
		return [], [], [f'unreadable: {ex}']
	return parse_deps_text(text)


def deps_text():
	lines, defines, bad = read_deps_config()
	names = []
	for src, dest in lines:
		names += [src, dest]
	for key, values in defines:
		names += [key] + values
	names = list(dict.fromkeys(names))
	untranslatable = []
	rows = []
	for name in names:
		try:
			rows.append(f'  ({_coq_string(name)}, {translate(name)})')
		except Untranslatable as ex:
			untranslatable.append(f'{name}: {ex}')
			rows.append(f'  ({_coq_string(name) if name.isascii() and chr(34) not in name else chr(34) * 2 + "%string"}, Empty)')
	out = [
		'(* REGENERATED from linters/cpp/deps.config by harness/gens/c19.py -- do not edit *)', 'From Symv Require Import Lint.Regex.', '',
		'Definition deps_lines : list (string * string) := [',
		';\n'.join(f'  ({_coq_string(a)}, {_coq_string(b)})' for a, b in lines), '].',
		'Definition deps_defines : list (string * list string) := [',
		';\n'.join(f'  ({_coq_string(k)}, [{"; ".join(_coq_string(v) for v in vs)}])' for k, vs in defines), '].',
		'Definition deps_names : list (string * regex) := [', ';\n'.join(rows), '].',
		f'Definition deps_unparseable : nat := {len(bad)}%nat.', f'Definition deps_untranslatable : nat := {len(untranslatable)}%nat.', '']
	return '\n'.join(out), bad, untranslatable


class LintGen(GenModule):
	"""Anchors (pinned skeletons, holes = constants/operators) + the translated pattern tables appended to the same Gen file."""

	def __init__(self):
		super().__init__('LintPatterns', header='From Symv Require Import Lint.Regex Base.PyOps.\nOpen Scope Z_scope.')
		self.last_tables = None

	def generate(self, shapes):
		text, unrecognised = super().generate(shapes)
		tables = build_tables()
		self.last_tables = tables
		for missing in tables['missing']:
			key = f'{VALIDATION}::tables::{missing}'
			shapes.report[key] = 'pattern-literal-not-found'
			unrecognised.append(key)
		for item in tables['untranslatable']:
			shapes.report[f'{VALIDATION}::{item["where"]}'] = f'not-translatable ({item["reason"]}): {item["pattern"]}'
		return text + tables_text(tables), unrecognised

	def extra(self, shapes):
		"""Gen/LintDeps.v: the dependency configuration as data."""
		try:
			text, bad, untranslatable = deps_text()
		except Untranslatable as ex:
			text, bad, untranslatable = None, [str(ex)], []
		if text is None:
			text = (
				'From Symv Require Import Lint.Regex.\nDefinition deps_lines : list (string * string) := [].\n'
				'Definition deps_defines : list (string * list string) := [].\nDefinition deps_names : list (string * regex) := [].\n'
				'Definition deps_unparseable : nat := 1%nat.\nDefinition deps_untranslatable : nat := 0%nat.\n')
		for item in bad:
			shapes.report[f'{DEPSCONFIG}::{item}'] = 'line-not-parseable'
		for item in untranslatable:
			shapes.report[f'{DEPSCONFIG}::{item}'] = 'name-not-translatable'
		write_if_changed(GEN / 'LintDeps.v', text)


LINT = (
	LintGen()
	.anchor(VALIDATION, 'strip_comments_and_strings', {})
	.anchor(VALIDATION, 'WhitespaceLineValidator.reset', {})
	.anchor(VALIDATION, 'WhitespaceLineValidator.check', {17: ('comma_exempt', 'bytes')})
	.anchor(VALIDATION, 'WhitespaceLineValidator.finalize', {0: ('cr_threshold', 'Z'), 1: ('cr_op', 'op')})
	.anchor(VALIDATION, 'LineLengthValidator.__init__', {0: ('line_length_limit', 'Z')})
	.anchor(VALIDATION, 'LineLengthValidator.check', {0: ('length_tab', 'char'), 1: ('length_tab_expansion', 'bytes'), 2: ('line_length_op', 'op')})
	.anchor(VALIDATION, 'TemplateSpaceValidator.check', {})
	.anchor(VALIDATION, 'CatchWithoutClosingTryBrace.check', {})
	.anchor(VALIDATION, 'TypoChecker.check', {})
	.anchor(VALIDATION, 'PragmaOnceValidator.reset', {})
	.anchor(VALIDATION, 'PragmaOnceValidator.check', {
		0: ('lic_open', 'bytes'), 5: ('lic_close', 'bytes'), 11: ('pp_include', 'bytes'), 14: ('empty_after_bound', 'Z'), 15: ('empty_after_op', 'op'),
		17: ('pp_hash', 'bytes'), 27: ('pragma_once', 'bytes')})
	.anchor(VALIDATION, 'PragmaOnceValidator.finalize', {})
	.anchor(VALIDATION, 'RegionValidator.__init__', {})
	.anchor(VALIDATION, 'RegionValidator.reset', {})
	.anchor(VALIDATION, 'RegionValidator.check', {
		3: ('region_open_prefix', 'bytes'), 4: ('region_nested_op', 'op'), 5: ('region_nested_bound', 'Z'), 13: ('region_end_prefix', 'bytes'),
		14: ('region_orphan_op', 'op'), 15: ('region_orphan_bound', 'Z')})
	.anchor(VALIDATION, 'RegionValidator.finalize', {0: ('region_final_op', 'op'), 1: ('region_final_bound', 'Z')})
	.anchor(VALIDATION, 'create_validators', {})
	.anchor(HEADERPARSER, 'HeaderParser.parse_file', {9: ('hp_tab', 'char'), 10: ('hp_tab_expansion', 'bytes')})
	.anchor(HEADERPARSER, 'HeaderParser.PATTERN_EMPTY_LINE', {})
	.anchor(CHECKPS, 'main', {})
	.anchor(CHECKPS, 'ConReporter.suite', {1: ('total_acc_op', 'op')})
	.anchor(CHECKPS, 'ConReporter.__init__', {0: ('total_initial', 'Z')})
	.anchor(CHECKPS, 'FilteredReporter.__call__', {})
	.anchor(CHECKPS, 'check_dependencies', {})
	.anchor(CHECKPS, 'deps_check_dir', {})
	.anchor(DEPSCHECKER, 'DepsChecker.parse', {})
	.anchor(DEPSCHECKER, 'DepsChecker.expand_define', {0: ('define_level_start', 'Z'), 1: ('define_level_op', 'op'), 2: ('define_level_limit', 'Z')})
	.anchor(DEPSCHECKER, 'DepsChecker.process_defines', {})
	.anchor(DEPSCHECKER, 'DepsChecker.is_self_contained', {})
	.anchor(DEPSCHECKER, 'DepsChecker.add_rule', {})
	.anchor(DEPSCHECKER, 'DepsChecker.add_rules', {})
	.anchor(DEPSCHECKER, 'DepsChecker.create_rule', {})
	.anchor(DEPSCHECKER, 'DepsChecker.process_rules', {})
	.anchor(DEPSCHECKER, 'DepsChecker.create_rules', {})
	.anchor(DEPSCHECKER, 'DepsChecker.match', {})
	.anchor(CHECKPS, 'Analyzer.print_formatting_out', {})
)

MODULES = [LINT]
