"""Shared machinery for the codec properties (C01 C02 C12 C15 C10): schema-directed value generation, neutral value trees,
conversion tree <-> SDK objects, tree -> Gallina value term, canonical rendering (mirrors coq/Cats/LayoutRender.v).

A neutral tree is: int | bytes | list | None | ('S', class_name, [(member, tree), ...]).
Members carried by a struct value are exactly the generator's non_reserved_fields (computed here from the schema)."""
import importlib
import sys

from .gens.c01 import expanded_models
from .common import REPO


class Net:
	"""One network: expanded schema models + the shipped (or a generated) codec module."""

	def __init__(self, name, module, models, coq_schema, coq_import):
		self.name = name
		self.module = module
		self.models = models
		self.by_name = {m.name: m for m in models}
		self.coq_schema = coq_schema      # Gallina name of the schema term
		self.coq_import = coq_import      # Require line making it available
		self.children = {}
		for model in models:
			if kind(model) == 'Struct' and model.factory_type:
				self.children.setdefault(model.factory_type, []).append(model)


def kind(model):
	return type(model).__name__


def load_net(name):
	if name == 'symbol':
		module = importlib.import_module('symbolchain.sc')
		models = expanded_models(REPO / 'catbuffer/schemas/symbol/all_generated.cats', REPO / 'catbuffer/schemas/symbol')
		return Net('symbol', module, models, 'sc_schema', 'From Symv Require Import Gen.SchemaSc.')
	module = importlib.import_module('symbolchain.nc')
	models = expanded_models(REPO / 'catbuffer/schemas/nem/all_generated.cats', REPO / 'catbuffer/schemas/nem')
	return Net('nem', module, models, 'nc_schema', 'From Symv Require Import Gen.SchemaNc.')


# ---------------------------------------------------------------------------------------------------------------------
# schema helpers (mirror of the generator's field classification)

def fix_name(name):
	return f'{name}_' if name in ('type', 'property') else name


def non_const(struct):
	return [f for f in struct.fields if not f.is_const]


def is_array(field):
	return kind(field.field_type) == 'Array'


def is_byte_array(field):
	return is_array(field) and kind(field.field_type.element_type) == 'FixedSizeInteger' and field.field_type.element_type.size == 1


def bound_field(struct, field):
	fields = non_const(struct)
	if field.is_size_reference:
		return next((g for g in fields if g.name == field.value), None)
	bound = None
	for g in fields:
		if is_array(g) and isinstance(g.field_type.size, str) and g.field_type.size == field.name:
			bound = g
	return bound


def is_computed(field):
	return kind(field.field_type) == 'FixedSizeInteger' and bool(field.field_type.sizeref)


def settable_fields(struct):
	fields = [
		f for f in non_const(struct)
		if f.disposition != 'reserved' and not is_computed(f) and bound_field(struct, f) is None]
	if fields and fields[0].name == 'size':
		fields = fields[1:]
	return fields


# ---------------------------------------------------------------------------------------------------------------------
# tree <-> SDK objects

class Inadmissible(Exception):
	"""The SDK's own constructors refuse the value (so it is not a value the schema admits)."""


def to_object(net, type_name, tree):
	"""Builds the SDK object for a tree of static type type_name."""
	if tree is None:
		return None
	if isinstance(tree, tuple):
		cls_name = tree[1]
		model = net.by_name[cls_name]
		obj = getattr(net.module, cls_name)()
		members = dict(tree[2])
		for field in settable_fields(model):
			setattr(obj, '_' + fix_name(field.name), member_to_object(net, field, members.get(field.name)))
		return obj
	model = net.by_name[type_name]
	cls = getattr(net.module, type_name)
	try:
		return cls(tree)
	except ValueError as ex:
		raise Inadmissible(str(ex)) from ex


def member_to_object(net, field, tree):
	field_type = field.field_type
	if tree is None:
		return None
	if kind(field_type) == 'FixedSizeInteger':
		return tree
	if kind(field_type) == 'Array':
		if is_byte_array(field):
			return tree
		element_type = field_type.element_type
		return [to_object(net, element_type, item) for item in tree]
	return to_object(net, field_type, tree)


def from_object(net, type_name, obj):
	"""Neutral tree of an SDK object (dynamic class for structs)."""
	if obj is None:
		return None
	cls_name = type(obj).__name__
	model = net.by_name.get(cls_name)
	if model is not None and kind(model) == 'Struct':
		members = []
		for field in settable_fields(model):
			members.append((field.name, member_from_object(net, field, getattr(obj, '_' + fix_name(field.name)))))
		return ('S', cls_name, members)
	if hasattr(obj, 'bytes'):
		return bytes(obj.bytes)
	if hasattr(obj, 'value'):
		return obj.value
	raise TypeError(f'cannot convert {cls_name}')


def member_from_object(net, field, value):
	field_type = field.field_type
	if value is None:
		return None
	if kind(field_type) == 'FixedSizeInteger':
		return int(value)
	if kind(field_type) == 'Array':
		if is_byte_array(field):
			return bytes(value)
		return [from_object(net, field_type.element_type, item) for item in value]
	return from_object(net, field_type, value)


# ---------------------------------------------------------------------------------------------------------------------
# tree -> Gallina term / canonical text

def coq_value(tree):
	if tree is None:
		return 'VNull'
	if isinstance(tree, bool):
		raise TypeError('bool')
	if isinstance(tree, int):
		return f'(VInt ({tree}))'
	if isinstance(tree, (bytes, bytearray)):
		return '(VBytes [' + '; '.join(str(b) for b in tree) + '])'
	if isinstance(tree, list):
		return '(VArr [' + '; '.join(coq_value(item) for item in tree) + '])'
	if isinstance(tree, tuple):
		members = '; '.join(f'("{name}", {coq_value(value)})' for name, value in tree[2])
		return f'(VStruct "{tree[1]}" [{members}])'
	raise TypeError(type(tree))


def render(tree):
	"""Canonical text; mirrored by r_value in coq/Cats/LayoutRender.v."""
	if tree is None:
		return '~'
	if isinstance(tree, int):
		return f'(i {tree})'
	if isinstance(tree, (bytes, bytearray)):
		return f'(b {bytes(tree).hex()})'
	if isinstance(tree, list):
		return '(a' + ''.join(' ' + render(item) for item in tree) + ')'
	if isinstance(tree, tuple):
		return f'(s {tree[1]}' + ''.join(f' ({name} {render(value)})' for name, value in tree[2]) + ')'
	raise TypeError(type(tree))


# ---------------------------------------------------------------------------------------------------------------------
# schema-directed generation of admissible values

def int_bounds(size, unsigned):
	return (0, (1 << (8 * size)) - 1) if unsigned else (-(1 << (8 * size - 1)), (1 << (8 * size - 1)) - 1)


def gen_int(rng, size, unsigned):
	low, high = int_bounds(size, unsigned)
	pool = [low, low + 1, high - 1, high, 0, 1]
	if not unsigned:
		pool += [-1, -2]
	if rng.randrange(3):
		return rng.choice([v for v in pool if low <= v <= high])
	return rng.randrange(low, high + 1)


class Generator:
	def __init__(self, net, rng, max_array=3, long_arrays=False):
		self.net = net
		self.rng = rng
		self.max_array = max_array
		self.long_arrays = long_arrays
		self.stats = {}
		self.toggles = {}
		self.extreme = None      # 'min': every variable-length member as short as admissible; 'max': as long as this generator goes
		self.ints = None         # 'max' / 'min': every integer member (plain or alias typed) holds exactly the largest / smallest value of its width

	def note(self, key):
		self.stats[key] = self.stats.get(key, 0) + 1

	def named(self, type_name, depth=0):
		"""Admissible value of a named type (for abstract structs: of a random concrete child)."""
		model = self.net.by_name[type_name]
		model_kind = kind(model)
		if model_kind == 'Alias':
			if kind(model.linked_type) == 'FixedSizeInteger':
				if self.ints:
					self.note(f'ints:{self.ints}:alias')
					return int_bounds(model.size, True)[self.ints == 'max']
				return gen_int(self.rng, model.size, True)      # BaseValue aliases are range-checked as unsigned
			return bytes(self.rng.randrange(256) for _ in range(model.size))
		if model_kind == 'Enum':
			values = [v.value for v in model.values]
			if model.is_bitwise:
				choice = self.rng.randrange(4)
				if choice == 0:
					self.note('flags:none')
					return 0
				if choice == 1:
					self.note('flags:all')
					combined = 0
					for value in values:
						combined |= value
					return combined
				combined = 0
				for value in self.rng.sample(values, self.rng.randrange(1, min(3, len(values)) + 1)):
					combined |= value
				self.note('flags:some')
				return combined
			return self.rng.choice(values)
		if model_kind == 'Struct':
			if model.is_abstract:
				children = self.net.children.get(type_name, [])
				if not children or (depth == 0 and self.rng.randrange(8) == 0):
					return self.struct(model, depth)
				return self.struct(self.rng.choice(children), depth)
			return self.struct(model, depth)
		raise TypeError(model_kind)

	def array_length(self, count_field):
		limit = self.max_array
		if count_field is not None and count_field.size == 1:
			limit = min(limit, 255)
		if self.extreme == 'min':
			return 0
		if self.extreme == 'max':
			return limit
		choice = self.rng.randrange(10)
		if self.long_arrays and choice == 0:
			return min(17, 255)
		return self.rng.choice([0, 1, 2, 3][:limit + 1]) if choice < 8 else self.rng.randrange(0, limit + 1)

	def struct(self, model, depth):
		fields = non_const(model)
		by_name = {f.name: f for f in fields}
		members = {}
		# condition members first (enum-typed discriminators of unions)
		for field in settable_fields(model):
			if field.is_conditional:
				continue
			members[field.name] = self.member(model, field, by_name, depth)
		for field in settable_fields(model):
			if not field.is_conditional:
				continue
			conditional = field.value
			condition_field = by_name[conditional.linked_field_name]
			if kind(field.field_type) in ('FixedSizeInteger', 'Array') or is_computed(condition_field) or bound_field(model, condition_field):
				# presence is the member's own truthiness (or a computed/bound size derived from it)
				# both arms of every conditional, systematically: alternate per (struct, member) instead of tossing a coin
				toggle_key = (model.name, field.name)
				self.toggles[toggle_key] = not self.toggles.get(toggle_key, False)
				present = self.toggles[toggle_key]
				self.note(f'cond:{model.name}.{field.name}:{"present" if present else "absent"}')
				# an array guarded by a sentinel other than 0 on its own size member (NEM parent_name: absent <-> size 0xFFFFFFFF) may be
				# present AND empty; where the sentinel is 0, or presence is plain truthiness, present means non-empty
				may_be_empty = kind(field.field_type) == 'Array' and isinstance(conditional.value, int) and conditional.value != 0 \
					and conditional.operation == 'not equals' and bound_field(model, condition_field) is not None
				members[field.name] = self.member(model, field, by_name, depth, nonempty=not may_be_empty) if present else None
			else:
				condition_model = self.net.by_name.get(condition_field.field_type) if isinstance(condition_field.field_type, str) else None
				actual = members[condition_field.name]
				if condition_model is not None and kind(condition_model) == 'Enum':
					wanted = next(v.value for v in condition_model.values if v.name == conditional.value)
				else:
					wanted = conditional.value
				operation = conditional.operation
				if operation == 'equals':
					holds = wanted == actual
				elif operation == 'not equals':
					holds = wanted != actual
				elif operation == 'in':
					holds = (wanted & actual) == wanted
				else:
					holds = (wanted & actual) != wanted
				self.note(f'cond:{model.name}.{field.name}:{"present" if holds else "absent"}')
				members[field.name] = self.member(model, field, by_name, depth) if holds else None
		ordered = [(f.name, members[f.name]) for f in settable_fields(model)]
		# paired constants: the constructor initialises e.g. type/version from TRANSACTION_TYPE/TRANSACTION_VERSION
		for index, (name, _) in enumerate(ordered):
			for const_field in model.fields:
				if const_field.is_const and const_field.name.lower().endswith(name):
					value = const_field.value
					if isinstance(value, str):
						enum_model = self.net.by_name[const_field.field_type]
						value = next(v.value for v in enum_model.values if v.name == value)
					ordered[index] = (name, value)
					break
		return ('S', model.name, ordered)

	def member(self, model, field, by_name, depth, nonempty=False):
		field_type = field.field_type
		field_kind = kind(field_type)
		if field_kind == 'FixedSizeInteger':
			value = gen_int(self.rng, field_type.size, field_type.is_unsigned)
			if self.ints:
				self.note(f'ints:{self.ints}:plain')
				value = int_bounds(field_type.size, field_type.is_unsigned)[self.ints == 'max']
			return value or 1 if nonempty else value
		if field_kind == 'Array':
			count_field = by_name.get(field_type.size) if isinstance(field_type.size, str) else None
			if is_byte_array(field):
				if isinstance(field_type.size, int) and not field_type.is_expandable:
					return bytes(self.rng.randrange(256) for _ in range(field_type.size))
				length = self.rng.choice([0, 1, 2, 7, 8, 9, 16, 31]) if not nonempty else self.rng.choice([1, 2, 9])
				if self.extreme:
					length = {('min', False): 0, ('min', True): 1, ('max', False): 31, ('max', True): 31}[(self.extreme, bool(nonempty))]
				if count_field is not None:
					length = min(length, (1 << (8 * count_field.size)) - 1)
				return bytes(self.rng.randrange(256) for _ in range(length))
			if isinstance(field_type.size, int) and not field_type.is_expandable:
				length = field_type.size
			else:
				length = self.array_length(count_field if not field_type.is_byte_constrained else None)
				if nonempty:
					length = max(length, 1)
			items = [self.named(field_type.element_type, depth + 1) for _ in range(length)]
			if field_type.sort_key:
				items = self.sort_strict(field_type, items)
			self.note(f'array:{field_type.disposition}:{"keyed" if field_type.sort_key else "plain"}:len{min(len(items), 4)}')
			return items
		return self.named(field_type, depth + 1)

	def element_of_residue(self, element_type, alignment, aligned, depth=1, tries=96):
		"""An admissible element of a named type whose encoded size is (aligned) / is not (not aligned) a multiple of `alignment`: candidates
		are drawn until one fits; a candidate that misses is first retried with one of its variable-length byte members resized by the
		missing amount.  The size is read off the codec's own encoding: it SELECTS inputs and is never an oracle.  None: nothing found."""
		def fits(size):
			return size is not None and (size % alignment == 0) == bool(aligned)

		for _ in range(tries):
			candidate = self.named(element_type, depth)
			size = encoded_length(self.net, element_type, candidate)
			if fits(size):
				self.note(f'residue:{"aligned" if aligned else "unaligned"}:drawn')
				return candidate
			if size is None or not isinstance(candidate, tuple):
				continue
			model = self.net.by_name[candidate[1]]
			for field in settable_fields(model):
				value = dict(candidate[2]).get(field.name)
				if not is_byte_array(field) or field.is_conditional or not isinstance(value, bytes):
					continue
				if isinstance(field.field_type.size, int) and not field.field_type.is_expandable:
					continue
				extra = (-size) % alignment if aligned else (1 if (size + 1) % alignment else 2)
				resized = value + bytes(self.rng.randrange(256) for _ in range(extra))
				tweaked = ('S', candidate[1], [(name, resized if name == field.name else member) for name, member in candidate[2]])
				if fits(encoded_length(self.net, element_type, tweaked)):
					self.note(f'residue:{"aligned" if aligned else "unaligned"}:resized')
					return tweaked
		return None

	def sort_strict(self, array_type, items):
		"""Keyed arrays are admissible only in strictly ascending key order: sort through the SDK-independent key and drop duplicates."""
		keyed = []
		seen = set()
		for item in items:
			key = sort_key_of(self.net, array_type, item)
			if key in seen:
				continue
			seen.add(key)
			keyed.append((key, item))
		keyed.sort(key=lambda pair: pair[0])
		return [item for _, item in keyed]


def sort_key_of(net, array_type, item):
	"""Independent reading of the declared comparer (used to build admissible values and by the property oracles)."""
	element_model = net.by_name[array_type.element_type]
	members = dict(item[2])
	key_value = members[array_type.sort_key]
	key_field = next(f for f in element_model.fields if f.name == array_type.sort_key)
	if isinstance(key_field.field_type, str):
		key_model = net.by_name[key_field.field_type]
		if kind(key_model) == 'Struct' and key_model.comparer:
			import hashlib
			import sha3
			parts = []
			inner = dict(key_value[2])
			for property_name, transform in key_model.comparer:
				value = inner[property_name]
				if transform == 'ripemd_keccak_256':
					value = hashlib.new('ripemd160', sha3.keccak_256(value).digest()).digest()
				parts.append(value)
			return tuple(parts)
	if isinstance(key_value, list):
		return tuple(key_value)
	return key_value


def encoded_length(net, type_name, tree):
	"""Length of the codec's own encoding of a value, None when the value is not built or not encoded (input selection only)."""
	try:
		return len(bytes(to_object(net, type_name, tree).serialize()))
	except RecursionError:
		raise
	except Exception:  # pylint: disable=broad-except
		return None


def all_class_names(net):
	"""Every codec class of the module by reflection (so a new class cannot be skipped), split into codecs and factories."""
	codecs, factories = [], []
	for name, obj in vars(net.module).items():
		if not isinstance(obj, type) or obj.__module__ != net.module.__name__:
			continue
		if name.endswith('Factory') and hasattr(obj, 'create_by_name'):
			factories.append(name)
		else:
			codecs.append(name)
	return codecs, factories


def outcome(callable_):
	"""Runs an SDK call and canonicalises the outcome: ('ok', value) | ('reject',) | ('crash', kind)."""
	try:
		return ('ok', callable_())
	except ValueError:
		return ('reject',)
	except RecursionError:
		raise
	except Exception as ex:  # pylint: disable=broad-except
		return ('crash', type(ex).__name__)


def setup_paths():
	from .common import setup_impl_path
	setup_impl_path()
	for name in list(sys.modules):
		if name.startswith('symbolchain'):
			del sys.modules[name]


# ---------------------------------------------------------------------------------------------------------------------
# value trees in replay files

def tree_to_json(tree):
	if tree is None or isinstance(tree, int):
		return tree
	if isinstance(tree, (bytes, bytearray)):
		return {'b': bytes(tree).hex()}
	if isinstance(tree, list):
		return [tree_to_json(item) for item in tree]
	return {'S': tree[1], 'm': [[name, tree_to_json(value)] for name, value in tree[2]]}


def tree_from_json(data):
	if data is None or isinstance(data, int):
		return data
	if isinstance(data, list):
		return [tree_from_json(item) for item in data]
	if 'b' in data:
		return bytes.fromhex(data['b'])
	return ('S', data['S'], [(name, tree_from_json(value)) for name, value in data['m']])
