"""Writes MANIFEST.json from the table of built checks (run: /usr/bin/python3 -m harness.manifest)."""
import json
from pathlib import Path

VERIF = Path(__file__).resolve().parent.parent

NOTE_COMMON = 'Trusted: Coq 8.16.1 kernel + vm_compute, the translators in harness/gen.py, the correspondence harness and shims; ' \
	'the theorems are about the Gallina model, tied to /repo by regenerated constants/operators and by differential runs of model vs implementation.'

def collect():
	"""Every harness/checks/<id>.py exports MANIFEST = {'text', 'design_ref', 'technique'[, 'note']}."""
	import importlib
	import pkgutil
	from . import checks
	found = {}
	for info in pkgutil.iter_modules(checks.__path__):
		module = importlib.import_module(f'{checks.__name__}.{info.name}')
		if hasattr(module, 'MANIFEST'):
			found[info.name.upper()] = module.MANIFEST
	return found


# checks whose theorems and correspondence have been run to completion by the lead on /repo (others stay in not_applicable until then)
READY = ['C13', 'C08', 'C16', 'C17', 'C20', 'C05', 'C18', 'C01', 'C12', 'C02', 'C07', 'C14', 'C19', 'C09', 'C03', 'C06', 'C10', 'C15', 'C04', 'C11']

CHECKS = {pid: info for pid, info in collect().items() if pid in READY}

PENDING_REASON = 'check not yet built in this round (planned at proof level, see DESIGN.md section 4); not claimed until its theorems and correspondence run'


def main():
	ids = [json.loads(line)['id'] for line in (VERIF / 'properties.jsonl').read_text(encoding='utf8').splitlines() if line.strip()]
	checks = []
	for pid in ids:
		if pid not in CHECKS:
			continue
		info = CHECKS[pid]
		checks.append({
			'property_id': pid,
			'quick_cmd': f'/usr/bin/python3 run.py check {pid} --tier quick',
			'thorough_cmd': f'/usr/bin/python3 run.py check {pid} --tier thorough',
			'evidence_file': f'/verif/evidence/{pid}.json',
			'replay_cmd_template': '/usr/bin/python3 run.py replay {path}',
			'engine': 'symv',
			'level_claimed': {'category': 'proof', 'text': info['text'], 'design_ref': info['design_ref']},
			'level_note': info.get('note', NOTE_COMMON),
			'technique': info['technique']
		})
	manifest = {
		'version': 1,
		'setup_cmd': '/usr/bin/python3 run.py setup',
		'hooks': {
			'guard': 'SYMBOL_SYMBOL_VERIF',
			'enable': 'no hooks are needed: checks observe public APIs and the CLI; the variable is reserved and unused',
			'baseline_off_cmd': 'cd /repo && env -u SYMBOL_SYMBOL_VERIF /venv/bin/python -m pytest -ra -q -p no:cacheprovider --timeout=900 --continue-on-collection-errors',
			'source_commits': [],
			'add_only': True
		},
		'engines': [{
			'name': 'symv', 'path': '/verif/run.py', 'serves_properties': sorted(CHECKS),
			'kind_free_text': 'Coq 8.16 development (coq/) + Python translators and correspondence harness (harness/)'}],
		'checks': checks,
		'notes': 'See DESIGN.md. Every check: regenerate coq/Gen from /repo, make, compile Props/<id>.v (theorems + Print Assumptions), '
			'run model (vm_compute / extracted OCaml) and implementation on the same inputs, run property oracles on the implementation.',
		'not_applicable': [{'property_id': pid, 'reason': PENDING_REASON} for pid in ids if pid not in CHECKS]
	}
	(VERIF / 'MANIFEST.json').write_text(json.dumps(manifest, indent=1) + '\n', encoding='utf8')


if __name__ == '__main__':
	main()
