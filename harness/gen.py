"""R/S translators: rewrite coq/Gen/*.v from /repo's working tree.

Each Gen module is described by a list of anchors (source file, qualified name) with a map from atom index (see
common.shape_of) to a Gallina constant.  Atoms not named as holes must equal the pinned ones; if the anchor is not
recognised the pinned atoms are used for its holes (so the model still builds and the correspondence check decides) and the
anchor is reported as unrecognised."""
import ast
import operator

from .common import GEN, Shapes, write_if_changed

_EVAL = {
	ast.Add: operator.add, ast.Sub: operator.sub, ast.Mult: operator.mul, ast.FloorDiv: operator.floordiv, ast.Mod: operator.mod,
	ast.LShift: operator.lshift, ast.RShift: operator.rshift, ast.BitOr: operator.or_, ast.BitAnd: operator.and_,
	ast.BitXor: operator.xor, ast.Pow: operator.pow
}


def const_eval(node):
	"""Evaluates an integer constant expression; raises ValueError on anything else."""
	if isinstance(node, ast.Constant) and isinstance(node.value, int) and not isinstance(node.value, bool):
		return node.value
	if isinstance(node, ast.BinOp) and type(node.op) in _EVAL:
		left, right = const_eval(node.left), const_eval(node.right)
		if isinstance(node.op, (ast.LShift, ast.Pow)) and not 0 <= right <= 4096:
			raise ValueError('exponent')
		return _EVAL[type(node.op)](left, right)
	if isinstance(node, ast.UnaryOp) and isinstance(node.op, ast.USub):
		return -const_eval(node.operand)
	raise ValueError(ast.dump(node))


def render(kind, value):
	if kind == 'Z':
		if not isinstance(value, int) or isinstance(value, bool):
			raise ValueError(value)
		return f'({value})%Z', 'Z'
	if kind == 'nat':
		if not isinstance(value, int) or isinstance(value, bool) or not 0 <= value <= 4096:
			raise ValueError(value)
		return f'{value}%nat', 'nat'
	if kind == 'op':
		if value not in ('Lt', 'Le', 'Gt', 'Ge', 'Eq', 'Ne', 'Add', 'Sub', 'Mul', 'FloorDiv', 'Mod', 'BitOr', 'BitAnd', 'BitXor', 'LShift', 'RShift'):
			raise ValueError(value)
		return value, 'pyop'
	if kind == 'endian':
		return {'little': 'LittleE', 'big': 'BigE'}[value], 'endian'
	if kind == 'char':
		if not isinstance(value, str) or len(value) != 1:
			raise ValueError(value)
		return f'{ord(value)}%Z', 'Z'
	if kind == 'bool':
		return ('true' if value else 'false'), 'bool'
	if kind == 'bytes':
		if isinstance(value, str):
			value = value.encode('utf8')
		return '[' + '; '.join(str(b) for b in value) + ']%Z', 'list Z'
	if kind == 'string':
		if not isinstance(value, str) or '"' in value:
			raise ValueError(value)
		return f'"{value}"%string', 'string'
	raise ValueError(kind)


class GenModule:
	def __init__(self, name, header='From Symv Require Import Base.PyOps.'):
		self.name = name
		self.header = header
		self.anchors = []      # (relpath, qualname, {index: (coqname, kind)})
		self.groups = []       # (coqname, kind, [(relpath, qualname, index)]) -> list constant
		self.constexprs = []   # (relpath, qualname, coqname)

	def anchor(self, relpath, qualname, holes):
		self.anchors.append((relpath, qualname, holes))
		return self

	def constexpr(self, relpath, qualname, coqname):
		self.constexprs.append((relpath, qualname, coqname))
		return self

	def all_anchors(self):
		return [(r, q) for r, q, _ in self.anchors] + [(r, q) for r, q, _ in self.constexprs]

	def generate(self, shapes: Shapes):
		"""Returns (text, unrecognised anchors)."""
		lines = [f'(* REGENERATED from {self.name} anchors in /repo by harness/gen.py -- do not edit *)', self.header, '']
		unrecognised = []
		for relpath, qualname, holes in self.anchors:
			key = f'{relpath}::{qualname}'
			pinned = shapes.pinned.get(key)
			if pinned is None:
				raise RuntimeError(f'anchor {key} is not pinned (run: run.py pin)')
			pinned_atoms = [(k, bytes.fromhex(v[4:]) if isinstance(v, str) and v.startswith('hex:') else v) for k, v in pinned['atoms']]
			atoms = shapes.atoms(relpath, qualname)
			use = None
			if atoms is not None:
				same_outside = len(atoms) == len(pinned_atoms) and all(
					(list(a) == list(p) or i in holes) and a[0] == p[0] for i, (a, p) in enumerate(zip(atoms, pinned_atoms)))
				if same_outside:
					try:
						for index, (coqname, kind) in holes.items():
							render(kind, atoms[index][1])
						use = atoms
					except (ValueError, KeyError, IndexError, TypeError):
						shapes.report[key] = 'hole-value-not-translatable'
				else:
					shapes.report[key] = 'atoms-changed-outside-holes'
			if use is None:
				unrecognised.append(key)
				use = pinned_atoms
			lines.append(f'(* {key}: {shapes.report.get(key)} *)')
			for index, (coqname, kind) in sorted(holes.items()):
				text, typ = render(kind, use[index][1])
				lines.append(f'Definition {coqname} : {typ} := {text}.')
		for relpath, qualname, coqname in self.constexprs:
			key = f'{relpath}::{qualname}'
			pinned = shapes.pinned.get(key)
			if pinned is None:
				raise RuntimeError(f'anchor {key} is not pinned (run: run.py pin)')
			from .common import find_def
			tree = shapes.tree(relpath)
			node = find_def(tree, qualname) if tree is not None else None
			value = None
			if isinstance(node, ast.Assign):
				try:
					value = const_eval(node.value)
					shapes.report[key] = 'recognised'
				except (ValueError, TypeError, OverflowError):
					shapes.report[key] = 'not-a-constant-expression'
			else:
				shapes.report[key] = 'missing'
			if value is None:
				unrecognised.append(key)
				value = pinned['value']
			lines.append(f'(* {key}: {shapes.report.get(key)} *)')
			lines.append(f'Definition {coqname} : Z := ({value})%Z.')
		return '\n'.join(lines) + '\n', unrecognised

	def write(self, shapes):
		text, unrecognised = self.generate(shapes)
		write_if_changed(GEN / f'{self.name}.v', text)
		return unrecognised


def pin_modules(modules, only=None):
	"""Maintenance: pins skeleton/atoms (and constant values) of every anchor of the modules from the current tree;
	one file harness/shapes/<module>.json per Gen module."""
	import json
	from .common import find_def
	shapes = Shapes()
	for module in modules:
		if only and module.name not in only:
			continue
		pinned = {}
		try:
			for relpath, qualname, _ in module.anchors:
				pinned[f'{relpath}::{qualname}'] = shapes.pin_entry(relpath, qualname)
			for relpath, qualname, _ in module.constexprs:
				node = find_def(shapes.tree(relpath), qualname)
				pinned[f'{relpath}::{qualname}'] = {'skeleton': 'constexpr', 'atoms': [], 'value': const_eval(node.value)}
		except Exception as ex:  # pylint: disable=broad-except
			print(f'NOT pinned {module.name}: {ex}')
			continue
		(Shapes.PINNED_DIR / f'{module.name}.json').write_text(json.dumps(pinned, indent=1, sort_keys=True) + '\n', encoding='utf8')


# ---------------------------------------------------------------------------------------------------------------------
# discovery: every harness/gens/<name>.py exports MODULES

def all_modules():
	import importlib
	import pkgutil
	from . import gens
	modules = []
	for info in sorted(pkgutil.iter_modules(gens.__path__), key=lambda i: i.name):
		modules += importlib.import_module(f'{gens.__name__}.{info.name}').MODULES
	return modules


def regenerate(shapes=None):
	"""Rewrites every Gen module; returns {module: [unrecognised anchors]} and the Shapes object."""
	shapes = shapes or Shapes()
	result = {}
	for module in all_modules():
		shapes.use(module.name)
		result[module.name] = module.write(shapes)
		if hasattr(module, 'extra'):
			module.extra(shapes)
	return result, shapes
